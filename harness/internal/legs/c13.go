package legs

import (
	"fmt"
	"math/rand"
	"sort"
	"strings"
	"time"

	"rvharness/internal/core"

	regexp2 "github.com/dlclark/regexp2/v2"
	"github.com/dlclark/regexp2/v2/syntax"
)

// C13 — The backtracking stack limit is honoured and otherwise invisible.
//
// Leg O (model-free oracle + threshold correspondence): pattern × inputs × limits.
// Leg A (correspondence): Lean alloc0/grow/ensure arithmetic vs the capacities the Go runner really
//        allocates (VerifMaxTrackCap) for a demand threshold measured by bisection.
// Leg P (correspondence): per compiled program, the Lean potential Σ weight(op) computed with the
//        regenerated fingerprint/opcode tables vs Code.TrackCount (the `need ≥ Φ(0)` hypothesis of
//        track_inv for the programs the writer really emits).

const (
	c13Default   = -2 // limit value meaning "compile without OptionMaxBacktrackingStackSize" (100000)
	c13Unlimited = -1
)

type c13Case struct {
	Pattern string   `json:"pattern"`
	Opts    int      `json:"opts"`
	Inputs  []string `json:"inputs"`
	// explicit limits to try (c13Default = no option). The limits derived from the program's
	// TrackCount (alloc±1, ±4, 4·tc±1, 2·alloc±1) are always added by the check.
	Limits []int `json:"limits"`
}

// ---------------------------------------------------------------------------------------------
// pattern generator

type c13Gen struct {
	rng     *rand.Rand
	ngroups int
	names   []string
	budget  int // remaining node budget
}

const c13Alpha = "abcxy"

func (g *c13Gen) ch() byte { return c13Alpha[g.rng.Intn(len(c13Alpha))] }

// each generator returns the pattern text and a sampler producing a text the node is likely to match
type c13Frag struct {
	pat    string
	sample func(r *rand.Rand) string
	atomic bool // can take a quantifier without grouping
}

func (g *c13Gen) atom() c13Frag {
	r := g.rng
	switch k := r.Intn(100); {
	case k < 55:
		c := g.ch()
		return c13Frag{string(c), func(*rand.Rand) string { return string(c) }, true}
	case k < 65:
		a, b := g.ch(), g.ch()
		return c13Frag{"[" + string(a) + string(b) + "]", func(r *rand.Rand) string {
			if r.Intn(2) == 0 {
				return string(a)
			}
			return string(b)
		}, true}
	case k < 70:
		a := g.ch()
		return c13Frag{"[^" + string(a) + "]", func(r *rand.Rand) string {
			for {
				c := c13Alpha[r.Intn(len(c13Alpha))]
				if c != a {
					return string(c)
				}
			}
		}, true}
	case k < 78:
		return c13Frag{".", func(r *rand.Rand) string { return string(c13Alpha[r.Intn(len(c13Alpha))]) }, true}
	case k < 81:
		return c13Frag{`\w`, func(r *rand.Rand) string { return string(c13Alpha[r.Intn(len(c13Alpha))]) }, true}
	case k < 83:
		return c13Frag{`\d`, func(r *rand.Rand) string { return "1" }, true}
	case k < 90:
		as := []string{"^", "$", `\b`, `\B`, `\A`, `\z`, `\Z`, `\G`}
		return c13Frag{as[r.Intn(len(as))], func(*rand.Rand) string { return "" }, false}
	default:
		n := 2 + r.Intn(3)
		b := make([]byte, n)
		for i := range b {
			b[i] = g.ch()
		}
		s := string(b)
		return c13Frag{s, func(*rand.Rand) string { return s }, false}
	}
}

func (g *c13Gen) quantify(f c13Frag) c13Frag {
	r := g.rng
	body := f.pat
	if !f.atomic {
		body = "(?:" + body + ")"
	}
	var q string
	var lo, hi int
	switch r.Intn(8) {
	case 0, 1:
		q, lo, hi = "*", 0, 4
	case 2:
		q, lo, hi = "+", 1, 4
	case 3:
		q, lo, hi = "?", 0, 1
	case 4, 5:
		lo = r.Intn(4)
		hi = lo + r.Intn(5)
		q = fmt.Sprintf("{%d,%d}", lo, hi)
	case 6:
		lo = r.Intn(4)
		hi = lo + 3
		q = fmt.Sprintf("{%d,}", lo)
	default:
		lo = 1 + r.Intn(3)
		hi = lo
		q = fmt.Sprintf("{%d}", lo)
	}
	if r.Intn(100) < 35 {
		q += "?"
	}
	inner := f.sample
	return c13Frag{body + q, func(r *rand.Rand) string {
		n := lo
		if hi > lo {
			n += r.Intn(hi - lo + 1)
		}
		var sb strings.Builder
		for i := 0; i < n; i++ {
			sb.WriteString(inner(r))
		}
		return sb.String()
	}, false}
}

func (g *c13Gen) node(depth int) c13Frag {
	r := g.rng
	g.budget--
	if depth <= 0 || g.budget <= 0 {
		return g.atom()
	}
	switch k := r.Intn(100); {
	case k < 20:
		return g.atom()
	case k < 45: // concatenation
		n := 2 + r.Intn(3)
		parts := make([]c13Frag, n)
		var sb strings.Builder
		for i := range parts {
			parts[i] = g.node(depth - 1)
			if strings.Contains(parts[i].pat, "|") && !strings.HasPrefix(parts[i].pat, "(") {
				parts[i].pat = "(?:" + parts[i].pat + ")"
			}
			sb.WriteString(parts[i].pat)
		}
		return c13Frag{sb.String(), func(r *rand.Rand) string {
			var sb strings.Builder
			for _, p := range parts {
				sb.WriteString(p.sample(r))
			}
			return sb.String()
		}, false}
	case k < 58: // alternation with many branches
		n := 2 + r.Intn(5)
		parts := make([]c13Frag, n)
		pats := make([]string, n)
		for i := range parts {
			parts[i] = g.node(depth - 1)
			pats[i] = parts[i].pat
		}
		return c13Frag{"(?:" + strings.Join(pats, "|") + ")", func(r *rand.Rand) string { return parts[r.Intn(len(parts))].sample(r) }, true}
	case k < 78:
		return g.quantify(g.node(depth - 1))
	case k < 86: // capture
		g.ngroups++
		idx := g.ngroups
		open := "("
		if r.Intn(4) == 0 {
			name := fmt.Sprintf("n%d", idx)
			g.names = append(g.names, name)
			open = "(?<" + name + ">"
		}
		f := g.node(depth - 1)
		return c13Frag{open + f.pat + ")", f.sample, true}
	case k < 91: // lookaround
		kinds := []string{"(?=", "(?!", "(?<=", "(?<!"}
		kd := kinds[r.Intn(len(kinds))]
		f := g.node(depth - 1)
		return c13Frag{kd + f.pat + ")", func(*rand.Rand) string { return "" }, true}
	case k < 95: // atomic
		f := g.node(depth - 1)
		return c13Frag{"(?>" + f.pat + ")", f.sample, true}
	case k < 98: // back-reference
		if g.ngroups == 0 {
			return g.atom()
		}
		n := 1 + r.Intn(g.ngroups)
		c := g.ch()
		return c13Frag{fmt.Sprintf(`\%d`, n), func(*rand.Rand) string { return string(c) }, true}
	default: // conditional on a group
		if g.ngroups == 0 {
			return g.atom()
		}
		n := 1 + r.Intn(g.ngroups)
		y, no := g.node(depth-1), g.node(depth-1)
		if strings.Contains(y.pat, "|") {
			y.pat = "(?:" + y.pat + ")"
		}
		if strings.Contains(no.pat, "|") {
			no.pat = "(?:" + no.pat + ")"
		}
		return c13Frag{fmt.Sprintf("(?(%d)%s|%s)", n, y.pat, no.pat), no.sample, true}
	}
}

// deep chain: a tower of quantified groups, narrow but deep
func (g *c13Gen) tower(levels int) c13Frag {
	f := g.atom()
	for i := 0; i < levels; i++ {
		switch g.rng.Intn(4) {
		case 0:
			s := g.atom()
			ff := f
			f = c13Frag{"(?:" + f.pat + "|" + s.pat + ")", func(r *rand.Rand) string {
				if r.Intn(3) == 0 {
					return s.sample(r)
				}
				return ff.sample(r)
			}, true}
		case 1:
			g.ngroups++
			f = c13Frag{"(" + f.pat + ")", f.sample, true}
		case 2:
			s := g.atom()
			ff := f
			f = c13Frag{f.pat + s.pat, func(r *rand.Rand) string { return ff.sample(r) + s.sample(r) }, false}
		}
		f = g.quantify(f)
	}
	return f
}

var c13Opts = []regexp2.RegexOptions{
	0, 0, 0, 0, 0, 0,
	regexp2.IgnoreCase, regexp2.RightToLeft, regexp2.RightToLeft, regexp2.Multiline, regexp2.Singleline,
	regexp2.ExplicitCapture, regexp2.ECMAScript, regexp2.RE2, regexp2.IgnoreCase | regexp2.RightToLeft,
	regexp2.Multiline | regexp2.Singleline,
}

func c13RandText(r *rand.Rand, n int) string {
	b := make([]byte, n)
	for i := range b {
		b[i] = c13Alpha[r.Intn(len(c13Alpha))]
	}
	return string(b)
}

func c13Limits(c *core.Ctx, r *rand.Rand) []int {
	ls := []int{0, 64, 100, 257, 1000, c13Default}
	if c.Thorough() {
		for i := 1; i < 64; i++ {
			ls = append(ls, i)
		}
		return ls
	}
	for i := 0; i < 12; i++ {
		ls = append(ls, 1+r.Intn(63))
	}
	return ls
}

// linear families: used depth grows linearly with the input and the run time stays polynomial
func c13Family(r *rand.Rand) (string, []string) {
	rep := func(s string, n int) string { return strings.Repeat(s, n) }
	n := 5 + r.Intn(120)
	switch r.Intn(15) {
	case 12, 13: // straight-line runs of one-character loops: many pushes between two backward jumps (the
		// reservation 4*TrackCount made at a jump has to cover them all), plain and as a repeated group body
		k := 3 + r.Intn(6)
		var sb, in strings.Builder
		for i := 0; i < k; i++ {
			ch := "abcdefgh"[i]
			switch r.Intn(4) {
			case 0:
				sb.WriteString(`\w+`)
				in.WriteString(rep("x", 2+r.Intn(3)))
				sb.WriteString(`\s+`)
				in.WriteString(rep(" ", 1+r.Intn(3)))
			case 1:
				sb.WriteString(string(ch) + "+?")
				in.WriteString(rep(string(ch), 2+r.Intn(3)))
			default:
				sb.WriteString(string(ch) + "+")
				in.WriteString(rep(string(ch), 2+r.Intn(3)))
			}
		}
		body, one := sb.String(), in.String()
		reps := 1 + r.Intn(30)
		if r.Intn(2) == 0 {
			return "RTL:(?:" + body + ")+", []string{rep(one, reps), rep(one, reps) + "!", one}
		}
		if r.Intn(2) == 0 {
			return "RTL:" + body, []string{one, "zz " + one + " zz", rep(one, 2)}
		}
		return "(?:" + body + ")+", []string{rep(one, reps), rep(one, reps) + "!", one}
	case 0: // the shape of the truncated-growth defect
		k := 1 + r.Intn(14)
		var sb strings.Builder
		sb.WriteString("(?:x")
		for i := 0; i < k; i++ {
			sb.WriteByte("abcdefghijklmn"[i])
			sb.WriteString("??")
		}
		sb.WriteString(")*y")
		return sb.String(), []string{rep("x", n), rep("x", n) + "y", rep("xa", n/2) + "y"}
	case 1:
		return "(?:a|b|c)*x", []string{c13RandText(r, 3) + rep("ab", n/2), rep("abc", n/3) + "x", rep("c", n)}
	case 2:
		return "(a|b)+?c", []string{rep("ab", n/2) + "c", rep("a", n), "c"}
	case 3:
		lo, hi := r.Intn(3), 3+r.Intn(60)
		return fmt.Sprintf("(?:a|b){%d,%d}x", lo, hi), []string{rep("ab", n/2) + "x", rep("b", n), rep("a", hi) + "x"}
	case 4:
		lo, hi := r.Intn(3), 3+r.Intn(60)
		return fmt.Sprintf("(?:[ab]c?){%d,%d}?x", lo, hi), []string{rep("ac", n/2) + "x", rep("b", n), rep("a", hi) + "x"}
	case 5:
		return `(\w)+\1x`, []string{rep("ab", n/2) + "bx", rep("a", n), rep("xy", n/2)}
	case 6:
		return `(?:(a)|(b))*(?(1)c|x)`, []string{rep("ab", n/2) + "c", rep("b", n) + "x", rep("ba", n/2)}
	case 7:
		return `(?=(?:ab)*c)(?:a|b)*`, []string{rep("ab", n/2) + "c", rep("ab", n/2), "c"}
	case 8:
		return `(?>(?:a|ab)*)c`, []string{rep("ab", n/2) + "c", rep("a", n) + "c", rep("ab", n/2)}
	case 9:
		return `(?<=(?:a|b)*)c`, []string{rep("ab", n/2) + "c", rep("ba", n/2) + "cc", rep("a", n)}
	case 10:
		k := 2 + r.Intn(10)
		alts := make([]string, k)
		for i := range alts {
			alts[i] = c13RandText(r, 1+r.Intn(3))
		}
		return "(?:" + strings.Join(alts, "|") + ")*?y", []string{rep(alts[0], n/2) + "y", rep(alts[k-1]+alts[0], n/3), c13RandText(r, n)}
	default:
		return `(?:(?:a{1,3}?b?){1,4}c?)*x`, []string{rep("aab", n/3) + "x", rep("abc", n/3), rep("a", n%40)}
	}
}

func c13GenCase(c *core.Ctx) func(rng *rand.Rand, i int) c13Case {
	return func(rng *rand.Rand, i int) c13Case {
		cs := c13Case{Limits: c13Limits(c, rng)}
		switch {
		case i%4 == 0:
			cs.Pattern, cs.Inputs = c13Family(rng)
			if rng.Intn(4) == 0 {
				cs.Opts = int(c13Opts[rng.Intn(len(c13Opts))])
			}
			if strings.HasPrefix(cs.Pattern, "RTL:") {
				cs.Pattern = cs.Pattern[4:]
				cs.Opts = int(regexp2.RightToLeft)
				if rng.Intn(4) == 0 {
					cs.Opts |= int(regexp2.IgnoreCase)
				}
			}
			return cs
		default:
			g := &c13Gen{rng: rng, budget: 14 + rng.Intn(30)}
			var f c13Frag
			if i%4 == 1 {
				f = g.tower(2 + rng.Intn(10))
				if rng.Intn(2) == 0 {
					t := g.node(2)
					ff := f
					f = c13Frag{f.pat + t.pat, func(r *rand.Rand) string { return ff.sample(r) + t.sample(r) }, false}
				}
			} else {
				f = g.node(3 + rng.Intn(4))
			}
			cs.Pattern = f.pat
			cs.Opts = int(c13Opts[rng.Intn(len(c13Opts))])
			for k := 0; k < 2; k++ {
				s := f.sample(rng)
				if rng.Intn(3) == 0 {
					s = c13RandText(rng, rng.Intn(3)) + s + c13RandText(rng, rng.Intn(3))
				}
				if len(s) > 200 {
					s = s[:200]
				}
				cs.Inputs = append(cs.Inputs, s)
			}
			cs.Inputs = append(cs.Inputs, c13RandText(rng, rng.Intn(14)))
			if rng.Intn(3) == 0 {
				cs.Inputs = append(cs.Inputs, c13RandText(rng, 20+rng.Intn(60)))
			}
			return cs
		}
	}
}

// ---------------------------------------------------------------------------------------------
// running the real code

const (
	c13OK = iota
	c13LimitErr
	c13OtherErr
	c13Panic
)

type c13Res struct {
	Kind   int
	Vals   []string // canonical results of the calls that returned before an error
	Detail string
}

func (r c13Res) String() string {
	k := []string{"ok", "ErrBacktrackingStackLimit", "error", "PANIC"}[r.Kind]
	return k + " " + strings.Join(r.Vals, ";") + " " + r.Detail
}

func c13Canon(m *regexp2.Match) string {
	if m == nil {
		return "nomatch"
	}
	var sb strings.Builder
	for _, g := range m.Groups() {
		fmt.Fprintf(&sb, "%s[", g.Name)
		for _, cp := range g.Captures {
			fmt.Fprintf(&sb, "%d+%d,", cp.RuneIndex, cp.RuneLength)
		}
		sb.WriteString("]")
	}
	return sb.String()
}

func c13Err(res *c13Res, err error) {
	if err == regexp2.ErrBacktrackingStackLimit {
		res.Kind = c13LimitErr
	} else {
		res.Kind = c13OtherErr
		res.Detail = err.Error()
	}
}

// c13Find: FindStringMatch and up to three FindNextMatch calls.
func c13Find(re *regexp2.Regexp, s string) (res c13Res) {
	defer func() {
		if p := recover(); p != nil {
			res.Kind = c13Panic
			res.Detail = fmt.Sprint(p)
		}
	}()
	m, err := re.FindStringMatch(s)
	for n := 0; ; n++ {
		if err != nil {
			if m != nil {
				res.Detail = "match returned together with an error"
				res.Kind = c13OtherErr
				return
			}
			c13Err(&res, err)
			return
		}
		res.Vals = append(res.Vals, c13Canon(m))
		if m == nil || n >= 3 {
			return
		}
		m, err = re.FindNextMatch(m)
	}
}

// c13Quick: MatchString (bool-only program).
func c13Quick(re *regexp2.Regexp, s string) (res c13Res) {
	defer func() {
		if p := recover(); p != nil {
			res.Kind = c13Panic
			res.Detail = fmt.Sprint(p)
		}
	}()
	ok, err := re.MatchString(s)
	if err != nil {
		if ok {
			res.Kind = c13OtherErr
			res.Detail = "true returned together with an error"
			return
		}
		c13Err(&res, err)
		return
	}
	res.Vals = []string{fmt.Sprint(ok)}
	return
}

func c13Compile(pat string, opts int, limit int) (*regexp2.Regexp, error) {
	var re *regexp2.Regexp
	var err error
	if limit == c13Default {
		re, err = regexp2.Compile(pat, regexp2.RegexOptions(opts))
	} else {
		re, err = regexp2.Compile(pat, regexp2.RegexOptions(opts), regexp2.OptionMaxBacktrackingStackSize(limit))
	}
	if err == nil {
		re.MatchTimeout = 80 * time.Millisecond
	}
	return re, err
}

func c13Eff(l int) int { // effective ordering value of a limit
	switch l {
	case c13Default:
		return 100000
	case c13Unlimited:
		return 1 << 40
	}
	return l
}

func c13AllLimits(explicit []int, tc int) []int {
	alloc := 8 * tc
	if alloc < 64 {
		alloc = 64
	}
	set := map[int]bool{}
	for _, l := range explicit {
		if l >= 0 || l == c13Default {
			set[l] = true
		}
	}
	for _, base := range []int{alloc, 4 * tc, 2 * alloc} {
		for _, d := range []int{-4, -1, 0, 1, 4} {
			if base+d >= 0 {
				set[base+d] = true
			}
		}
	}
	var ls []int
	for l := range set {
		ls = append(ls, l)
	}
	sort.Slice(ls, func(i, j int) bool { return c13Eff(ls[i]) < c13Eff(ls[j]) })
	return ls
}

func c13PrefixOf(a, b []string) bool {
	if len(a) > len(b) {
		return false
	}
	for i := range a {
		if a[i] != b[i] {
			return false
		}
	}
	return true
}

func c13Same(a, b c13Res) bool {
	return a.Kind == b.Kind && len(a.Vals) == len(b.Vals) && c13PrefixOf(a.Vals, b.Vals)
}

var c13Once bool

func c13CheckO(c *core.Ctx, cases []c13Case) []core.Outcome {
	if !c13Once {
		c13Once = true
		regexp2.SetTimeoutCheckPeriod(10 * time.Millisecond)
	}
	outs := make([]core.Outcome, len(cases))
	for ci, cs := range cases {
		o := &outs[ci]
		o.Key = fmt.Sprintf("%s/%d/%q", cs.Pattern, cs.Opts, cs.Inputs)
		fail := func(key, summary, exp, got string) {
			if o.Fail == nil {
				o.Fail = &core.Failure{Kind: "impl-violation", Key: key, Summary: summary, Expected: exp, Got: got}
			}
		}
		ref, err := c13Compile(cs.Pattern, cs.Opts, c13Unlimited)
		if err != nil {
			o.Buckets = append(o.Buckets, "compile-error")
			continue
		}
		tc := regexp2.VerifCode(ref).TrackCount
		o.Buckets = append(o.Buckets, "tc-"+c13Bucket(tc))
		type call struct {
			name string
			f    func(*regexp2.Regexp, string) c13Res
		}
		calls := []call{{"find", c13Find}, {"quick", c13Quick}}
		// reference results (limit disabled)
		type key struct{ in, call int }
		refs := map[key]c13Res{}
		usable := 0
		for ii, in := range cs.Inputs {
			for ki, k := range calls {
				t0 := time.Now()
				r := k.f(ref, in)
				if r.Kind == c13OK && time.Since(t0) > 15*time.Millisecond {
					// too slow to repeat under ~40 limits; the limit-relevant behaviour is covered by faster cases
					o.Buckets = append(o.Buckets, "ref-slow")
					continue
				}
				switch r.Kind {
				case c13Panic:
					fail("panic:unlimited", fmt.Sprintf("%s panics with the limit disabled on %q: %s", k.name, in, r.Detail), "no panic", r.String())
				case c13LimitErr:
					fail("limit-error:unlimited", fmt.Sprintf("%s fails with ErrBacktrackingStackLimit although the limit is disabled, input %q", k.name, in), "a result", r.String())
				case c13OK:
					refs[key{ii, ki}] = r
					usable++
				default:
					o.Buckets = append(o.Buckets, "ref-timeout")
				}
			}
		}
		if usable == 0 || o.Fail != nil {
			continue
		}
		limits := c13AllLimits(cs.Limits, tc)
		firstOK := map[key]int{} // smallest limit at which the call succeeded
		nErr, nOK, nMid := 0, 0, 0
		for _, L := range append(limits, c13Unlimited) {
			// fresh[k]: result of a freshly compiled Regexp (fresh interpreter state)
			fresh := map[key]c13Res{}
			for ii, in := range cs.Inputs {
				for ki, k := range calls {
					want, ok := refs[key{ii, ki}]
					if !ok {
						continue
					}
					re, err := c13Compile(cs.Pattern, cs.Opts, L)
					if err != nil {
						fail("compile:limit", fmt.Sprintf("pattern compiles without a limit but not with limit %d: %v", L, err), "compiles", err.Error())
						continue
					}
					regexp2.VerifResetMaxTrackCap()
					got := k.f(re, in)
					capHW := regexp2.VerifMaxTrackCap()
					fresh[key{ii, ki}] = got
					where := fmt.Sprintf("%s, limit %d, input %q", k.name, L, in)
					if L >= 0 && capHW > L {
						fail("cap-exceeds-limit", fmt.Sprintf("backtracking stack of %d slots allocated (%s)", capHW, where), fmt.Sprintf("<= %d", L), fmt.Sprint(capHW))
					}
					switch got.Kind {
					case c13Panic:
						fail("panic:"+c13PanicClass(got.Detail), fmt.Sprintf("panic (%s): %s", where, got.Detail), want.String(), got.String())
					case c13OtherErr:
						o.Buckets = append(o.Buckets, "timeout-under-limit")
					case c13LimitErr:
						nErr++
						if L >= 4*tc {
							nMid++ // the run got past its first storage check and was cut off later
						}
						if L == c13Unlimited {
							fail("limit-error:unlimited", "ErrBacktrackingStackLimit with the limit disabled ("+where+")", want.String(), got.String())
						}
						if !c13PrefixOf(got.Vals, want.Vals) {
							fail("wrong-result-before-error", "results before the error differ from the unlimited run ("+where+")", want.String(), got.String())
						}
						if f, ok := firstOK[key{ii, ki}]; ok {
							fail("not-monotone", fmt.Sprintf("succeeds with limit %d but fails with the larger limit (%s)", f, where), want.String(), got.String())
						}
					case c13OK:
						nOK++
						if !c13Same(got, want) {
							fail("result-differs", "result under the limit differs from the unlimited result ("+where+")", want.String(), got.String())
						}
						if _, ok := firstOK[key{ii, ki}]; !ok {
							firstOK[key{ii, ki}] = L
						}
					}
				}
			}
			if o.Fail != nil {
				break
			}
			// one shared Regexp used for every input in turn (forwards, then backwards): a call after an
			// error, or after the stack has grown, must behave like a call on a fresh Regexp
			re, err := c13Compile(cs.Pattern, cs.Opts, L)
			if err != nil {
				continue
			}
			order := make([]int, 0, 2*len(cs.Inputs))
			for ii := range cs.Inputs {
				order = append(order, ii)
			}
			for ii := len(cs.Inputs) - 1; ii >= 0; ii-- {
				order = append(order, ii)
			}
			prevErr := false
			for _, ii := range order {
				for ki, k := range calls {
					want, ok := fresh[key{ii, ki}]
					if !ok || want.Kind == c13OtherErr || want.Kind == c13Panic {
						continue
					}
					regexp2.VerifResetMaxTrackCap()
					got := k.f(re, cs.Inputs[ii])
					capHW := regexp2.VerifMaxTrackCap()
					where := fmt.Sprintf("%s, limit %d, input %q, reused Regexp", k.name, L, cs.Inputs[ii])
					if L >= 0 && capHW > L {
						fail("cap-exceeds-limit", fmt.Sprintf("backtracking stack of %d slots allocated (%s)", capHW, where), fmt.Sprintf("<= %d", L), fmt.Sprint(capHW))
					}
					if got.Kind == c13Panic {
						fail("panic:"+c13PanicClass(got.Detail), fmt.Sprintf("panic (%s): %s", where, got.Detail), want.String(), got.String())
					} else if got.Kind != c13OtherErr && !c13Same(got, want) {
						kk := "reuse-differs"
						if prevErr {
							kk = "unusable-after-error"
						}
						fail(kk, "a reused Regexp answers differently from a fresh one ("+where+")", want.String(), got.String())
					}
					prevErr = got.Kind == c13LimitErr
				}
			}
			if o.Fail != nil {
				break
			}
		}
		o.Nontrivial = nMid > 0 && nOK > 0
		switch {
		case nMid > 0 && nOK > 0:
			o.Buckets = append(o.Buckets, "cut-off-mid-run-at-some-limit")
		case nErr > 0 && nOK > 0:
			o.Buckets = append(o.Buckets, "fails-only-at-first-check")
		case nErr > 0:
			o.Buckets = append(o.Buckets, "only-limit-errors")
		default:
			o.Buckets = append(o.Buckets, "never-limited")
		}
	}
	return outs
}

func c13Bucket(n int) string {
	switch {
	case n <= 4:
		return "1-4"
	case n <= 8:
		return "5-8"
	case n <= 16:
		return "9-16"
	case n <= 32:
		return "17-32"
	default:
		return "33+"
	}
}

func c13PanicClass(s string) string {
	switch {
	case strings.Contains(s, "index out of range [-"):
		return "negative-index"
	case strings.Contains(s, "index out of range"):
		return "index"
	case strings.Contains(s, "slice bounds"):
		return "slice-bounds"
	}
	return "other"
}

// ---------------------------------------------------------------------------------------------
// Leg A: allocation arithmetic, Lean alloc0/grow/ensure vs the capacities the runner really allocates

type c13ACase struct {
	Pattern string `json:"pattern"`
	Opts    int    `json:"opts"`
	Input   string `json:"input"`
	Call    string `json:"call"`   // find | quick
	Limits  []int  `json:"limits"` // extra limits to compare at
	Seq     []int  `json:"seq"`    // permille of the largest demand: checks placed before the largest one in the model run
}

func c13GenA(rng *rand.Rand, i int) c13ACase {
	cs := c13ACase{Call: "find"}
	if rng.Intn(3) == 0 {
		cs.Call = "quick"
	}
	if i%3 != 2 {
		var ins []string
		cs.Pattern, ins = c13Family(rng)
		cs.Input = ins[rng.Intn(len(ins))]
	} else {
		g := &c13Gen{rng: rng, budget: 10 + rng.Intn(30)}
		f := g.tower(2 + rng.Intn(8))
		cs.Pattern = f.pat
		cs.Opts = int(c13Opts[rng.Intn(len(c13Opts))])
		cs.Input = f.sample(rng)
		if len(cs.Input) > 150 {
			cs.Input = cs.Input[:150]
		}
	}
	for k := rng.Intn(4); k > 0; k-- {
		cs.Seq = append(cs.Seq, rng.Intn(1001))
	}
	for k := 0; k < 4; k++ {
		cs.Limits = append(cs.Limits, rng.Intn(1200))
	}
	return cs
}

// one call on a freshly compiled Regexp: result kind and the largest backtracking stack allocated
func c13FreshCall(cs c13ACase, L int) (kind int, capHW int, detail string) {
	re, err := c13Compile(cs.Pattern, cs.Opts, L)
	if err != nil {
		return c13OtherErr, 0, err.Error()
	}
	regexp2.VerifResetMaxTrackCap()
	var r c13Res
	if cs.Call == "quick" {
		r = c13Quick(re, cs.Input)
	} else {
		r = func() (res c13Res) {
			defer func() {
				if p := recover(); p != nil {
					res.Kind = c13Panic
					res.Detail = fmt.Sprint(p)
				}
			}()
			_, err := re.FindStringMatch(cs.Input)
			if err != nil {
				c13Err(&res, err)
			}
			return
		}()
	}
	return r.Kind, regexp2.VerifMaxTrackCap(), r.Detail
}

func c13CheckA(c *core.Ctx, cases []c13ACase) []core.Outcome {
	if !c13Once {
		c13Once = true
		regexp2.SetTimeoutCheckPeriod(10 * time.Millisecond)
	}
	outs := make([]core.Outcome, len(cases))
	type probe struct {
		ci, L     int
		goAns     string
		allowZero bool // no storage check is reached: the call may return before an interpreter state is set up at all
	}
	var probes []probe
	var lines []string
	for ci, cs := range cases {
		o := &outs[ci]
		o.Key = fmt.Sprintf("%s/%d/%q/%s", cs.Pattern, cs.Opts, cs.Input, cs.Call)
		ref, err := c13Compile(cs.Pattern, cs.Opts, c13Unlimited)
		if err != nil {
			o.Buckets = append(o.Buckets, "compile-error")
			continue
		}
		tc := regexp2.VerifCode(ref).TrackCount
		t0 := time.Now()
		kind, capU, _ := c13FreshCall(cs, c13Unlimited)
		if kind != c13OK || time.Since(t0) > 10*time.Millisecond {
			o.Buckets = append(o.Buckets, "skipped-slow-or-error")
			continue
		}
		// threshold L*: the smallest limit under which the call succeeds (bisection on the real code)
		lo, hi := 0, capU // success at hi is itself checked below against the model
		if k, _, _ := c13FreshCall(cs, hi); k != c13OK {
			if k == c13LimitErr {
				o.Fail = &core.Failure{Kind: "correspondence-break", Key: "A:fails-at-unlimited-capacity", Summary: fmt.Sprintf("the unlimited run allocates %d slots but the same call fails under limit %d", capU, capU), Expected: "ok", Got: "ErrBacktrackingStackLimit"}
			}
			continue
		}
		bad := false
		for lo < hi {
			mid := (lo + hi) / 2
			k, _, _ := c13FreshCall(cs, mid)
			switch k {
			case c13OK:
				hi = mid
			case c13LimitErr:
				lo = mid + 1
			case c13Panic:
				_, _, d := c13FreshCall(cs, mid)
				o.Fail = &core.Failure{Kind: "impl-violation", Key: "panic:" + c13PanicClass(d), Summary: fmt.Sprintf("panic (%s, limit %d, input %q): %s", cs.Call, mid, cs.Input, d), Expected: "a result or ErrBacktrackingStackLimit", Got: "PANIC " + d}
				bad = true
				lo = hi
			default:
				bad = true
				lo = hi
			}
		}
		if bad {
			o.Buckets = append(o.Buckets, "skipped-slow-or-error")
			continue
		}
		star := lo
		alloc := 8 * tc
		if alloc < 64 {
			alloc = 64
		}
		switch {
		case star == 0:
			o.Buckets = append(o.Buckets, "no-check-reached")
		case star == 4*tc:
			o.Buckets = append(o.Buckets, "only-empty-stack-checks")
		case capU > alloc:
			o.Buckets = append(o.Buckets, "stack-grew")
			o.Nontrivial = true
		default:
			o.Buckets = append(o.Buckets, "fits-initial-allocation")
			o.Nontrivial = true
		}
		if star != 0 && star < 4*tc {
			o.Fail = &core.Failure{Kind: "correspondence-break", Key: "A:threshold-below-first-demand", Summary: fmt.Sprintf("the call succeeds under limit %d although the first storage check demands 4*TrackCount = %d free slots", star, 4*tc), Expected: fmt.Sprintf(">= %d", 4*tc), Got: fmt.Sprint(star)}
			continue
		}
		// demand sequence for the model: some smaller demands, then the largest one
		var seq []int
		if star > 0 {
			top := star - 4*tc
			seq = append(seq, 0)
			for _, pm := range cs.Seq {
				seq = append(seq, top*pm/1000)
			}
			seq = append(seq, top)
			for _, pm := range cs.Seq {
				seq = append(seq, top*(1000-pm)/1000)
			}
		}
		set := map[int]bool{c13Unlimited: true, star: true, star + 1: true, alloc: true, alloc + 1: true, alloc - 1: true, 2 * alloc: true, 2*alloc + 1: true, 2*alloc - 1: true, 4 * tc: true, 2*star - 1: true, 2 * star: true, capU: true, capU - 1: true, capU + 1: true, capU / 2: true, capU/2 + 1: true, 100000: true}
		if star > 0 {
			set[star-1] = true
		}
		for _, l := range cs.Limits {
			set[l] = true
		}
		var ls []int
		for l := range set {
			if l >= -1 {
				ls = append(ls, l)
			}
		}
		sort.Ints(ls)
		for _, L := range ls {
			k, capHW, d := c13FreshCall(cs, L)
			var ans string
			switch k {
			case c13OK:
				ans = fmt.Sprintf("(ok %d)", capHW)
			case c13LimitErr:
				ans = fmt.Sprintf("(err %d)", capHW)
			case c13Panic:
				if o.Fail == nil {
					o.Fail = &core.Failure{Kind: "impl-violation", Key: "panic:" + c13PanicClass(d), Summary: fmt.Sprintf("panic (%s, limit %d, input %q): %s", cs.Call, L, cs.Input, d), Expected: "a result or ErrBacktrackingStackLimit", Got: "PANIC " + d}
				}
				continue
			default:
				continue
			}
			if L >= 0 && capHW > L && o.Fail == nil {
				o.Fail = &core.Failure{Kind: "impl-violation", Key: "cap-exceeds-limit", Summary: fmt.Sprintf("backtracking stack of %d slots allocated (%s, limit %d, input %q)", capHW, cs.Call, L, cs.Input), Expected: fmt.Sprintf("<= %d", L), Got: fmt.Sprint(capHW)}
			}
			probes = append(probes, probe{ci: ci, L: L, goAns: ans, allowZero: star == 0})
			lines = append(lines, core.S("c13", "sim", fmt.Sprint(L), fmt.Sprint(tc), core.SInts(seq)))
		}
	}
	res, err := c.RunDriver(lines)
	if err != nil {
		if len(outs) > 0 && outs[0].Fail == nil {
			outs[0].Fail = core.DriverFailure(err)
		}
		return outs
	}
	for pi, p := range probes {
		// the model reports (err i len): drop the index of the failing check (not observable in Go)
		m := res[pi]
		if strings.HasPrefix(m, "(err ") {
			f := strings.Fields(strings.Trim(m, "()"))
			if len(f) == 3 {
				m = "(err " + f[2] + ")"
			}
		}
		if p.allowZero && p.goAns == "(ok 0)" {
			continue
		}
		if m != p.goAns && outs[p.ci].Fail == nil {
			cs := cases[p.ci]
			key := "A:capacity"
			if m[:3] != p.goAns[:3] {
				key = "A:outcome"
			}
			outs[p.ci].Fail = &core.Failure{Kind: "correspondence-break", Key: key,
				Summary:  fmt.Sprintf("limit %d, %s on %q: the Lean allocation model (driven with the demand threshold measured on the Go code) and the Go runner disagree on outcome / allocated capacity; model line %s", p.L, cs.Call, cs.Input, lines[pi]),
				Expected: res[pi], Got: p.goAns}
		}
	}
	return outs
}

// ---------------------------------------------------------------------------------------------
// Leg P: compiled programs vs the regenerated opcode tables (the `need ≥ Φ(0)` hypothesis)

type c13PCase struct {
	Pattern string `json:"pattern"`
	Opts    int    `json:"opts"`
}

func c13GenP(rng *rand.Rand, i int) c13PCase {
	if i%5 == 0 {
		p, _ := c13Family(rng)
		return c13PCase{Pattern: p, Opts: int(c13Opts[rng.Intn(len(c13Opts))])}
	}
	g := &c13Gen{rng: rng, budget: 10 + rng.Intn(60)}
	var f c13Frag
	if i%5 == 1 {
		f = g.tower(2 + rng.Intn(12))
	} else {
		f = g.node(3 + rng.Intn(5))
	}
	return c13PCase{Pattern: f.pat, Opts: int(c13Opts[rng.Intn(len(c13Opts))])}
}

func c13CheckP(c *core.Ctx, cases []c13PCase) []core.Outcome {
	outs := make([]core.Outcome, len(cases))
	type probe struct {
		ci                  int
		which               string
		ninstr, nbt, tcount int
	}
	var probes []probe
	var lines []string
	for ci, cs := range cases {
		o := &outs[ci]
		o.Key = fmt.Sprintf("%s/%d", cs.Pattern, cs.Opts)
		re, err := regexp2.Compile(cs.Pattern, regexp2.RegexOptions(cs.Opts))
		if err != nil {
			o.Buckets = append(o.Buckets, "compile-error")
			continue
		}
		codes := map[string]*syntax.Code{"main": regexp2.VerifCode(re)}
		if q := regexp2.VerifQuickCode(re); q != nil {
			codes["quick"] = q
			o.Buckets = append(o.Buckets, "has-quick-code")
		}
		for _, which := range []string{"main", "quick"} {
			code := codes[which]
			if code == nil {
				continue
			}
			// Go-side decoding with the real opcodeSize / opcodeBacktracks
			n, nbt := 0, 0
			for pos := 0; pos < len(code.Codes); {
				op := syntax.InstOp(code.Codes[pos]) & syntax.Mask
				if syntax.VerifOpcodeBacktracks(op) {
					nbt++
				}
				if op == syntax.Nullmark {
					next := pos + syntax.VerifOpcodeSize(op)
					if (next >= len(code.Codes) || syntax.InstOp(code.Codes[next])&syntax.Mask != syntax.Goto) && o.Fail == nil {
						o.Fail = &core.Failure{Kind: "correspondence-break", Key: "P:nullmark-without-goto", Summary: fmt.Sprintf("%s program: the Nullmark at %d is not followed by a Goto (its push is not paid for by a counted instruction)", which, pos), Expected: "Goto", Got: fmt.Sprint(code.Codes)}
					}
				}
				pos += syntax.VerifOpcodeSize(op)
				n++
			}
			if which == "main" {
				o.Nontrivial = nbt > 1
				o.Buckets = append(o.Buckets, "tc-"+c13Bucket(code.TrackCount))
			}
			probes = append(probes, probe{ci, which, n, nbt, code.TrackCount})
			lines = append(lines, core.S("c13", "prog", core.SInts(code.Codes)))
		}
	}
	res, err := c.RunDriver(lines)
	if err != nil {
		if len(outs) > 0 && outs[0].Fail == nil {
			outs[0].Fail = core.DriverFailure(err)
		}
		return outs
	}
	for pi, p := range probes {
		o := &outs[p.ci]
		if o.Fail != nil {
			continue
		}
		var ninstr, pot, tcm, nnull, ngoto int
		if _, err := fmt.Sscanf(res[pi], "(prog %d %d %d %d %d)", &ninstr, &pot, &tcm, &nnull, &ngoto); err != nil {
			o.Fail = &core.Failure{Kind: "correspondence-break", Key: "P:decode", Summary: p.which + " program: the Lean decoder (regenerated opcodeSize table) rejects the code array", Expected: "(prog …)", Got: res[pi]}
			continue
		}
		bad := func(key, sum, exp, got string) {
			if o.Fail == nil {
				o.Fail = &core.Failure{Kind: "correspondence-break", Key: key, Summary: p.which + " program: " + sum, Expected: exp, Got: got}
			}
		}
		if ninstr != p.ninstr {
			bad("P:instruction-count", "instruction count by the regenerated opcodeSize table differs from syntax.opcodeSize", fmt.Sprint(ninstr), fmt.Sprint(p.ninstr))
		}
		if tcm != p.nbt {
			bad("P:backtracks-table", "backtracking instructions by the regenerated opcodeBacktracks table differ from syntax.opcodeBacktracks", fmt.Sprint(tcm), fmt.Sprint(p.nbt))
		}
		if p.which == "main" && tcm != p.tcount || tcm > p.tcount {
			bad("P:trackcount", "Code.TrackCount is not the number of backtracking instructions of the program", fmt.Sprint(tcm), fmt.Sprint(p.tcount))
		}
		if nnull > ngoto {
			bad("P:pairing", "more Nullmark than Goto instructions", fmt.Sprintf("<= %d", ngoto), fmt.Sprint(nnull))
		}
		if pot > 4*p.tcount {
			bad("P:potential-exceeds-need", fmt.Sprintf("the positions of the program can push %d slots between two storage checks but a check only guarantees 4*TrackCount = %d", pot, 4*p.tcount), fmt.Sprintf("<= %d", 4*p.tcount), fmt.Sprint(pot))
		}
	}
	return outs
}

func init() {
	core.Register("C13", func(c *core.Ctx) {
		corpus := []c13Case{
			// the truncated-growth overrun fixed by 23c41f0
			{Pattern: `(?:xa??b??c??d??e??f??g??h??i??j??k??)*y`, Inputs: []string{strings.Repeat("x", 60), strings.Repeat("x", 60) + "y"}, Limits: []int{257, 256, 258, 64, 1000, c13Default}},
			{Pattern: `(?:^){40}`, Inputs: []string{"", "a"}, Limits: []int{0, 1, 32, 64, 100, c13Default}},
			{Pattern: `(a|b)*c`, Inputs: []string{strings.Repeat("ab", 100) + "c", "c", ""}, Limits: []int{0, 3, 4, 8, 63, 64, 65, 100, 257, 1000, c13Default}},
			{Pattern: `(?<=(a)+?)\1b`, Opts: int(regexp2.RightToLeft), Inputs: []string{"aaaab", "b"}, Limits: []int{0, 20, 64, c13Default}},
		}
		core.RunLeg(c, core.Leg[c13Case]{
			Name: "O", Kind: "oracle",
			Rule:   "every 4th case a linear family (loop bodies of alternations/lazy optionals/counted loops/backrefs/conditionals/lookarounds/atomic groups over inputs of 5-125 repeated units), every 4th a tower of 2-11 nested quantified groups, the rest random ASTs of depth 3-6 (literals, classes, anchors, concatenation, 2-6-way alternation, greedy/lazy * + ? {m,n} {m,} {m}, captures, named captures, four lookarounds, atomic groups, backrefs, conditionals) under one of 10 option sets; inputs: two samples drawn from the pattern (sometimes padded), one random text, sometimes a long random text; limits: 0,64,100,257,1000,default plus 12 random values of 1..63 (thorough: all of 0..64) plus alloc+{-4,-1,0,1,4}, 4tc+{…}, 2alloc+{…} where alloc=max(64,8·TrackCount), and -1. Per (limit,input,call∈{FindStringMatch+3×FindNextMatch, MatchString}) on a fresh Regexp: no panic; result identical to the unlimited result or exactly ErrBacktrackingStackLimit (matches returned before the error identical too); VerifMaxTrackCap ≤ L; success at L ⇒ success at every larger limit; then one Regexp reused over all inputs forwards and backwards answers like the fresh ones (usable after an error). non-trivial = some limit ≥ 4·TrackCount fails (run cut off after its first storage check) and some limit succeeds; distinct by (pattern,options,inputs)",
			Corpus: corpus, N: c.N(300, 4500), Gen: c13GenCase(c), Check: c13CheckO, Batch: 50,
		})
		core.RunLeg(c, core.Leg[c13ACase]{
			Name: "A", Kind: "correspondence",
			Rule: "2/3 linear families, 1/3 towers of nested quantified groups; one input; call = FindStringMatch or MatchString on a freshly compiled Regexp. The smallest limit L* under which the call succeeds is found by bisection on the Go code; by theorem ensure_ok_iff L* = (largest stack depth at a storage check) + 4·TrackCount, so the Lean model (alloc0, then ensure per check) is driven with a demand sequence whose maximum is L* − 4·TrackCount and must predict, at ~25 limits (L*−1, L*, L*+1, alloc±1, 2alloc±1, 2L*, the unlimited capacity ±1 and its half, 100000, 4 random, −1), both the outcome and the exact VerifMaxTrackCap (the clamped doubling chain; = L on failure). non-trivial = some check happens with a non-empty stack; distinct by (pattern,options,input,call)",
			Corpus: []c13ACase{
				{Pattern: `(?:xa??b??c??d??e??f??g??h??i??j??k??)*y`, Input: strings.Repeat("x", 60), Call: "find", Limits: []int{256, 257, 258}, Seq: []int{500}},
				{Pattern: `(a|b)*c`, Input: strings.Repeat("ab", 100) + "c", Call: "quick", Limits: []int{64, 65, 1000}},
				{Pattern: `abc`, Input: "xxabc", Call: "find", Limits: []int{0, 3, 4, 5}},
			},
			N: c.N(500, 20000), Gen: c13GenA, Check: c13CheckA, Batch: 100,
		})
		core.RunLeg(c, core.Leg[c13PCase]{
			Name: "P", Kind: "correspondence",
			Rule:   "random patterns (as leg O, larger) under 10 option sets; for the main and the bool-only program: the Lean decoder with the regenerated opcodeSize table splits Code.Codes into the same number of instructions as syntax.opcodeSize; the regenerated opcodeBacktracks table counts Code.TrackCount instructions (bool-only program: at most); every Nullmark is directly followed by a Goto; and the potential Σ weight(op) computed in Lean from the regenerated case fingerprints is ≤ 4·TrackCount (hypothesis `need ≥ Φ(0)` of track_inv for this program). non-trivial = more than one backtracking instruction; distinct by (pattern,options)",
			Corpus: []c13PCase{{Pattern: `(?:ab?)*c`}, {Pattern: `(?<n>a)*?(?(n)b|c){2,5}(?>x+)(?<=y)`, Opts: int(regexp2.RightToLeft)}},
			N:      c.N(4000, 200000), Gen: c13GenP, Check: c13CheckP, Batch: 1000,
		})
		vmLeg(c, c.N(500, 8000), vmSizes{k: 24, maxSteps: 4000, maxText: 12, extra: 2}) // leg W: interpreter model vs executeDefault (vm.go)
		wrLeg(c, 800, 40000)                                                            // the writer model behind QuickCodes / TrackCount (leg Wr, see writer.go)
	})
}
