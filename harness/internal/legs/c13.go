package legs

import (
	"fmt"
	"math/rand"
	"sort"
	"strings"
	"time"

	"rvharness/internal/core"

	regexp2 "github.com/dlclark/regexp2/v2"
	"github.com/dlclark/regexp2/v2/syntax"
)

// C13 — The backtracking stack limit is honoured and otherwise invisible.
//
// Leg O (model-free oracle + threshold correspondence): pattern × inputs × limits.
// Leg A (correspondence): Lean alloc0/grow/ensure arithmetic vs the capacities the Go runner really
//        allocates (VerifMaxTrackCap) for a demand threshold measured by bisection.
// Leg P (correspondence): per compiled program, the Lean potential Σ weight(op) computed with the
//        regenerated fingerprint/opcode tables vs Code.TrackCount (the `need ≥ Φ(0)` hypothesis of
//        track_inv for the programs the writer really emits).

const (
	c13Default   = -2 // limit value meaning "compile without OptionMaxBacktrackingStackSize" (100000)
	c13Unlimited = -1
)

type c13Case struct {
	Pattern string   `json:"pattern"`
	Opts    int      `json:"opts"`
	Inputs  []string `json:"inputs"`
	// explicit limits to try (c13Default = no option). The limits derived from the program's
	// TrackCount (alloc±1, ±4, 4·tc±1, 2·alloc±1) are always added by the check.
	Limits []int `json:"limits"`
}

// ---------------------------------------------------------------------------------------------
// pattern generator

type c13Gen struct {
	rng     *rand.Rand
	ngroups int
	names   []string
	budget  int // remaining node budget
}

const c13Alpha = "abcxy"

func (g *c13Gen) ch() byte { return c13Alpha[g.rng.Intn(len(c13Alpha))] }

// each generator returns the pattern text and a sampler producing a text the node is likely to match
type c13Frag struct {
	pat    string
	sample func(r *rand.Rand) string
	atomic bool // can take a quantifier without grouping
}

func (g *c13Gen) atom() c13Frag {
	r := g.rng
	switch k := r.Intn(100); {
	case k < 55:
		c := g.ch()
		return c13Frag{string(c), func(*rand.Rand) string { return string(c) }, true}
	case k < 65:
		a, b := g.ch(), g.ch()
		return c13Frag{"[" + string(a) + string(b) + "]", func(r *rand.Rand) string {
			if r.Intn(2) == 0 {
				return string(a)
			}
			return string(b)
		}, true}
	case k < 70:
		a := g.ch()
		return c13Frag{"[^" + string(a) + "]", func(r *rand.Rand) string {
			for {
				c := c13Alpha[r.Intn(len(c13Alpha))]
				if c != a {
					return string(c)
				}
			}
		}, true}
	case k < 78:
		return c13Frag{".", func(r *rand.Rand) string { return string(c13Alpha[r.Intn(len(c13Alpha))]) }, true}
	case k < 81:
		return c13Frag{`\w`, func(r *rand.Rand) string { return string(c13Alpha[r.Intn(len(c13Alpha))]) }, true}
	case k < 83:
		return c13Frag{`\d`, func(r *rand.Rand) string { return "1" }, true}
	case k < 90:
		as := []string{"^", "$", `\b`, `\B`, `\A`, `\z`, `\Z`, `\G`}
		return c13Frag{as[r.Intn(len(as))], func(*rand.Rand) string { return "" }, false}
	default:
		n := 2 + r.Intn(3)
		b := make([]byte, n)
		for i := range b {
			b[i] = g.ch()
		}
		s := string(b)
		return c13Frag{s, func(*rand.Rand) string { return s }, false}
	}
}

func (g *c13Gen) quantify(f c13Frag) c13Frag {
	r := g.rng
	body := f.pat
	if !f.atomic {
		body = "(?:" + body + ")"
	}
	var q string
	var lo, hi int
	switch r.Intn(8) {
	case 0, 1:
		q, lo, hi = "*", 0, 4
	case 2:
		q, lo, hi = "+", 1, 4
	case 3:
		q, lo, hi = "?", 0, 1
	case 4, 5:
		lo = r.Intn(4)
		hi = lo + r.Intn(5)
		q = fmt.Sprintf("{%d,%d}", lo, hi)
	case 6:
		lo = r.Intn(4)
		hi = lo + 3
		q = fmt.Sprintf("{%d,}", lo)
	default:
		lo = 1 + r.Intn(3)
		hi = lo
		q = fmt.Sprintf("{%d}", lo)
	}
	if r.Intn(100) < 35 {
		q += "?"
	}
	inner := f.sample
	return c13Frag{body + q, func(r *rand.Rand) string {
		n := lo
		if hi > lo {
			n += r.Intn(hi - lo + 1)
		}
		var sb strings.Builder
		for i := 0; i < n; i++ {
			sb.WriteString(inner(r))
		}
		return sb.String()
	}, false}
}

func (g *c13Gen) node(depth int) c13Frag {
	r := g.rng
	g.budget--
	if depth <= 0 || g.budget <= 0 {
		return g.atom()
	}
	switch k := r.Intn(100); {
	case k < 20:
		return g.atom()
	case k < 45: // concatenation
		n := 2 + r.Intn(3)
		parts := make([]c13Frag, n)
		var sb strings.Builder
		for i := range parts {
			parts[i] = g.node(depth - 1)
			if strings.Contains(parts[i].pat, "|") && !strings.HasPrefix(parts[i].pat, "(") {
				parts[i].pat = "(?:" + parts[i].pat + ")"
			}
			sb.WriteString(parts[i].pat)
		}
		return c13Frag{sb.String(), func(r *rand.Rand) string {
			var sb strings.Builder
			for _, p := range parts {
				sb.WriteString(p.sample(r))
			}
			return sb.String()
		}, false}
	case k < 58: // alternation with many branches
		n := 2 + r.Intn(5)
		parts := make([]c13Frag, n)
		pats := make([]string, n)
		for i := range parts {
			parts[i] = g.node(depth - 1)
			pats[i] = parts[i].pat
		}
		return c13Frag{"(?:" + strings.Join(pats, "|") + ")", func(r *rand.Rand) string { return parts[r.Intn(len(parts))].sample(r) }, true}
	case k < 78:
		return g.quantify(g.node(depth - 1))
	case k < 86: // capture
		g.ngroups++
		idx := g.ngroups
		open := "("
		if r.Intn(4) == 0 {
			name := fmt.Sprintf("n%d", idx)
			g.names = append(g.names, name)
			open = "(?<" + name + ">"
		}
		f := g.node(depth - 1)
		return c13Frag{open + f.pat + ")", f.sample, true}
	case k < 91: // lookaround
		kinds := []string{"(?=", "(?!", "(?<=", "(?<!"}
		kd := kinds[r.Intn(len(kinds))]
		f := g.node(depth - 1)
		return c13Frag{kd + f.pat + ")", func(*rand.Rand) string { return "" }, true}
	case k < 95: // atomic
		f := g.node(depth - 1)
		return c13Frag{"(?>" + f.pat + ")", f.sample, true}
	case k < 98: // back-reference
		if g.ngroups == 0 {
			return g.atom()
		}
		n := 1 + r.Intn(g.ngroups)
		c := g.ch()
		return c13Frag{fmt.Sprintf(`\%d`, n), func(*rand.Rand) string { return string(c) }, true}
	default: // conditional on a group
		if g.ngroups == 0 {
			return g.atom()
		}
		n := 1 + r.Intn(g.ngroups)
		y, no := g.node(depth-1), g.node(depth-1)
		if strings.Contains(y.pat, "|") {
			y.pat = "(?:" + y.pat + ")"
		}
		if strings.Contains(no.pat, "|") {
			no.pat = "(?:" + no.pat + ")"
		}
		return c13Frag{fmt.Sprintf("(?(%d)%s|%s)", n, y.pat, no.pat), no.sample, true}
	}
}

// deep chain: a tower of quantified groups, narrow but deep
func (g *c13Gen) tower(levels int) c13Frag {
	f := g.atom()
	for i := 0; i < levels; i++ {
		switch g.rng.Intn(4) {
		case 0:
			s := g.atom()
			ff := f
			f = c13Frag{"(?:" + f.pat + "|" + s.pat + ")", func(r *rand.Rand) string {
				if r.Intn(3) == 0 {
					return s.sample(r)
				}
				return ff.sample(r)
			}, true}
		case 1:
			g.ngroups++
			f = c13Frag{"(" + f.pat + ")", f.sample, true}
		case 2:
			s := g.atom()
			ff := f
			f = c13Frag{f.pat + s.pat, func(r *rand.Rand) string { return ff.sample(r) + s.sample(r) }, false}
		}
		f = g.quantify(f)
	}
	return f
}

var c13Opts = []regexp2.RegexOptions{
	0, 0, 0, 0, 0, 0,
	regexp2.IgnoreCase, regexp2.RightToLeft, regexp2.RightToLeft, regexp2.Multiline, regexp2.Singleline,
	regexp2.ExplicitCapture, regexp2.ECMAScript, regexp2.RE2, regexp2.IgnoreCase | regexp2.RightToLeft,
	regexp2.Multiline | regexp2.Singleline,
}

func c13RandText(r *rand.Rand, n int) string {
	b := make([]byte, n)
	for i := range b {
		b[i] = c13Alpha[r.Intn(len(c13Alpha))]
	}
	return string(b)
}

func c13Limits(c *core.Ctx, r *rand.Rand) []int {
	ls := []int{0, 64, 100, 257, 1000, c13Default}
	if c.Thorough() {
		for i := 1; i < 64; i++ {
			ls = append(ls, i)
		}
		return ls
	}
	for i := 0; i < 12; i++ {
		ls = append(ls, 1+r.Intn(63))
	}
	return ls
}

// linear families: used depth grows linearly with the input and the run time stays polynomial
func c13Family(r *rand.Rand) (string, []string) {
	rep := func(s string, n int) string { return strings.Repeat(s, n) }
	n := 5 + r.Intn(120)
	switch r.Intn(12) {
	case 0: // the shape of the truncated-growth defect
		k := 1 + r.Intn(14)
		var sb strings.Builder
		sb.WriteString("(?:x")
		for i := 0; i < k; i++ {
			sb.WriteByte("abcdefghijklmn"[i])
			sb.WriteString("??")
		}
		sb.WriteString(")*y")
		return sb.String(), []string{rep("x", n), rep("x", n) + "y", rep("xa", n/2) + "y"}
	case 1:
		return "(?:a|b|c)*x", []string{c13RandText(r, 3) + rep("ab", n/2), rep("abc", n/3) + "x", rep("c", n)}
	case 2:
		return "(a|b)+?c", []string{rep("ab", n/2) + "c", rep("a", n), "c"}
	case 3:
		lo, hi := r.Intn(3), 3+r.Intn(60)
		return fmt.Sprintf("(?:a|b){%d,%d}x", lo, hi), []string{rep("ab", n/2) + "x", rep("b", n), rep("a", hi) + "x"}
	case 4:
		lo, hi := r.Intn(3), 3+r.Intn(60)
		return fmt.Sprintf("(?:[ab]c?){%d,%d}?x", lo, hi), []string{rep("ac", n/2) + "x", rep("b", n), rep("a", hi) + "x"}
	case 5:
		return `(\w)+\1x`, []string{rep("ab", n/2) + "bx", rep("a", n), rep("xy", n/2)}
	case 6:
		return `(?:(a)|(b))*(?(1)c|x)`, []string{rep("ab", n/2) + "c", rep("b", n) + "x", rep("ba", n/2)}
	case 7:
		return `(?=(?:ab)*c)(?:a|b)*`, []string{rep("ab", n/2) + "c", rep("ab", n/2), "c"}
	case 8:
		return `(?>(?:a|ab)*)c`, []string{rep("ab", n/2) + "c", rep("a", n) + "c", rep("ab", n/2)}
	case 9:
		return `(?<=(?:a|b)*)c`, []string{rep("ab", n/2) + "c", rep("ba", n/2) + "cc", rep("a", n)}
	case 10:
		k := 2 + r.Intn(10)
		alts := make([]string, k)
		for i := range alts {
			alts[i] = c13RandText(r, 1+r.Intn(3))
		}
		return "(?:" + strings.Join(alts, "|") + ")*?y", []string{rep(alts[0], n/2) + "y", rep(alts[k-1]+alts[0], n/3), c13RandText(r, n)}
	default:
		return `(?:(?:a{1,3}?b?){1,4}c?)*x`, []string{rep("aab", n/3) + "x", rep("abc", n/3), rep("a", n%40)}
	}
}

func c13GenCase(c *core.Ctx) func(rng *rand.Rand, i int) c13Case {
	return func(rng *rand.Rand, i int) c13Case {
		cs := c13Case{Limits: c13Limits(c, rng)}
		switch {
		case i%4 == 0:
			cs.Pattern, cs.Inputs = c13Family(rng)
			if rng.Intn(4) == 0 {
				cs.Opts = int(c13Opts[rng.Intn(len(c13Opts))])
			}
			return cs
		default:
			g := &c13Gen{rng: rng, budget: 14 + rng.Intn(30)}
			var f c13Frag
			if i%4 == 1 {
				f = g.tower(2 + rng.Intn(10))
				if rng.Intn(2) == 0 {
					t := g.node(2)
					ff := f
					f = c13Frag{f.pat + t.pat, func(r *rand.Rand) string { return ff.sample(r) + t.sample(r) }, false}
				}
			} else {
				f = g.node(3 + rng.Intn(4))
			}
			cs.Pattern = f.pat
			cs.Opts = int(c13Opts[rng.Intn(len(c13Opts))])
			for k := 0; k < 2; k++ {
				s := f.sample(rng)
				if rng.Intn(3) == 0 {
					s = c13RandText(rng, rng.Intn(3)) + s + c13RandText(rng, rng.Intn(3))
				}
				if len(s) > 200 {
					s = s[:200]
				}
				cs.Inputs = append(cs.Inputs, s)
			}
			cs.Inputs = append(cs.Inputs, c13RandText(rng, rng.Intn(14)))
			if rng.Intn(3) == 0 {
				cs.Inputs = append(cs.Inputs, c13RandText(rng, 20+rng.Intn(60)))
			}
			return cs
		}
	}
}

// ---------------------------------------------------------------------------------------------
// running the real code

const (
	c13OK = iota
	c13LimitErr
	c13OtherErr
	c13Panic
)

type c13Res struct {
	Kind   int
	Vals   []string // canonical results of the calls that returned before an error
	Detail string
}

func (r c13Res) String() string {
	k := []string{"ok", "ErrBacktrackingStackLimit", "error", "PANIC"}[r.Kind]
	return k + " " + strings.Join(r.Vals, ";") + " " + r.Detail
}

func c13Canon(m *regexp2.Match) string {
	if m == nil {
		return "nomatch"
	}
	var sb strings.Builder
	for _, g := range m.Groups() {
		fmt.Fprintf(&sb, "%s[", g.Name)
		for _, cp := range g.Captures {
			fmt.Fprintf(&sb, "%d+%d,", cp.RuneIndex, cp.RuneLength)
		}
		sb.WriteString("]")
	}
	return sb.String()
}

func c13Err(res *c13Res, err error) {
	if err == regexp2.ErrBacktrackingStackLimit {
		res.Kind = c13LimitErr
	} else {
		res.Kind = c13OtherErr
		res.Detail = err.Error()
	}
}

// c13Find: FindStringMatch and up to three FindNextMatch calls.
func c13Find(re *regexp2.Regexp, s string) (res c13Res) {
	defer func() {
		if p := recover(); p != nil {
			res.Kind = c13Panic
			res.Detail = fmt.Sprint(p)
		}
	}()
	m, err := re.FindStringMatch(s)
	for n := 0; ; n++ {
		if err != nil {
			if m != nil {
				res.Detail = "match returned together with an error"
				res.Kind = c13OtherErr
				return
			}
			c13Err(&res, err)
			return
		}
		res.Vals = append(res.Vals, c13Canon(m))
		if m == nil || n >= 3 {
			return
		}
		m, err = re.FindNextMatch(m)
	}
}

// c13Quick: MatchString (bool-only program).
func c13Quick(re *regexp2.Regexp, s string) (res c13Res) {
	defer func() {
		if p := recover(); p != nil {
			res.Kind = c13Panic
			res.Detail = fmt.Sprint(p)
		}
	}()
	ok, err := re.MatchString(s)
	if err != nil {
		if ok {
			res.Kind = c13OtherErr
			res.Detail = "true returned together with an error"
			return
		}
		c13Err(&res, err)
		return
	}
	res.Vals = []string{fmt.Sprint(ok)}
	return
}

func c13Compile(pat string, opts int, limit int) (*regexp2.Regexp, error) {
	var re *regexp2.Regexp
	var err error
	if limit == c13Default {
		re, err = regexp2.Compile(pat, regexp2.RegexOptions(opts))
	} else {
		re, err = regexp2.Compile(pat, regexp2.RegexOptions(opts), regexp2.OptionMaxBacktrackingStackSize(limit))
	}
	if err == nil {
		re.MatchTimeout = 80 * time.Millisecond
	}
	return re, err
}

func c13Eff(l int) int { // effective ordering value of a limit
	switch l {
	case c13Default:
		return 100000
	case c13Unlimited:
		return 1 << 40
	}
	return l
}

func c13AllLimits(explicit []int, tc int) []int {
	alloc := 8 * tc
	if alloc < 64 {
		alloc = 64
	}
	set := map[int]bool{}
	for _, l := range explicit {
		if l >= 0 || l == c13Default {
			set[l] = true
		}
	}
	for _, base := range []int{alloc, 4 * tc, 2 * alloc} {
		for _, d := range []int{-4, -1, 0, 1, 4} {
			if base+d >= 0 {
				set[base+d] = true
			}
		}
	}
	var ls []int
	for l := range set {
		ls = append(ls, l)
	}
	sort.Slice(ls, func(i, j int) bool { return c13Eff(ls[i]) < c13Eff(ls[j]) })
	return ls
}

func c13PrefixOf(a, b []string) bool {
	if len(a) > len(b) {
		return false
	}
	for i := range a {
		if a[i] != b[i] {
			return false
		}
	}
	return true
}

func c13Same(a, b c13Res) bool {
	return a.Kind == b.Kind && len(a.Vals) == len(b.Vals) && c13PrefixOf(a.Vals, b.Vals)
}

var c13Once bool

func c13CheckO(c *core.Ctx, cases []c13Case) []core.Outcome {
	if !c13Once {
		c13Once = true
		regexp2.SetTimeoutCheckPeriod(10 * time.Millisecond)
	}
	outs := make([]core.Outcome, len(cases))
	for ci, cs := range cases {
		o := &outs[ci]
		o.Key = fmt.Sprintf("%s/%d/%q", cs.Pattern, cs.Opts, cs.Inputs)
		fail := func(key, summary, exp, got string) {
			if o.Fail == nil {
				o.Fail = &core.Failure{Kind: "impl-violation", Key: key, Summary: summary, Expected: exp, Got: got}
			}
		}
		ref, err := c13Compile(cs.Pattern, cs.Opts, c13Unlimited)
		if err != nil {
			o.Buckets = append(o.Buckets, "compile-error")
			continue
		}
		tc := regexp2.VerifCode(ref).TrackCount
		o.Buckets = append(o.Buckets, "tc-"+c13Bucket(tc))
		type call struct {
			name string
			f    func(*regexp2.Regexp, string) c13Res
		}
		calls := []call{{"find", c13Find}, {"quick", c13Quick}}
		// reference results (limit disabled)
		type key struct{ in, call int }
		refs := map[key]c13Res{}
		usable := 0
		for ii, in := range cs.Inputs {
			for ki, k := range calls {
				t0 := time.Now()
				r := k.f(ref, in)
				if r.Kind == c13OK && time.Since(t0) > 15*time.Millisecond {
					// too slow to repeat under ~40 limits; the limit-relevant behaviour is covered by faster cases
					o.Buckets = append(o.Buckets, "ref-slow")
					continue
				}
				switch r.Kind {
				case c13Panic:
					fail("panic:unlimited", fmt.Sprintf("%s panics with the limit disabled on %q: %s", k.name, in, r.Detail), "no panic", r.String())
				case c13LimitErr:
					fail("limit-error:unlimited", fmt.Sprintf("%s fails with ErrBacktrackingStackLimit although the limit is disabled, input %q", k.name, in), "a result", r.String())
				case c13OK:
					refs[key{ii, ki}] = r
					usable++
				default:
					o.Buckets = append(o.Buckets, "ref-timeout")
				}
			}
		}
		if usable == 0 || o.Fail != nil {
			continue
		}
		limits := c13AllLimits(cs.Limits, tc)
		firstOK := map[key]int{} // smallest limit at which the call succeeded
		nErr, nOK, nMid := 0, 0, 0
		for _, L := range append(limits, c13Unlimited) {
			// fresh[k]: result of a freshly compiled Regexp (fresh interpreter state)
			fresh := map[key]c13Res{}
			for ii, in := range cs.Inputs {
				for ki, k := range calls {
					want, ok := refs[key{ii, ki}]
					if !ok {
						continue
					}
					re, err := c13Compile(cs.Pattern, cs.Opts, L)
					if err != nil {
						fail("compile:limit", fmt.Sprintf("pattern compiles without a limit but not with limit %d: %v", L, err), "compiles", err.Error())
						continue
					}
					regexp2.VerifResetMaxTrackCap()
					got := k.f(re, in)
					capHW := regexp2.VerifMaxTrackCap()
					fresh[key{ii, ki}] = got
					where := fmt.Sprintf("%s, limit %d, input %q", k.name, L, in)
					if L >= 0 && capHW > L {
						fail("cap-exceeds-limit", fmt.Sprintf("backtracking stack of %d slots allocated (%s)", capHW, where), fmt.Sprintf("<= %d", L), fmt.Sprint(capHW))
					}
					switch got.Kind {
					case c13Panic:
						fail("panic:"+c13PanicClass(got.Detail), fmt.Sprintf("panic (%s): %s", where, got.Detail), want.String(), got.String())
					case c13OtherErr:
						o.Buckets = append(o.Buckets, "timeout-under-limit")
					case c13LimitErr:
						nErr++
						if L >= 4*tc {
							nMid++ // the run got past its first storage check and was cut off later
						}
						if L == c13Unlimited {
							fail("limit-error:unlimited", "ErrBacktrackingStackLimit with the limit disabled ("+where+")", want.String(), got.String())
						}
						if !c13PrefixOf(got.Vals, want.Vals) {
							fail("wrong-result-before-error", "results before the error differ from the unlimited run ("+where+")", want.String(), got.String())
						}
						if f, ok := firstOK[key{ii, ki}]; ok {
							fail("not-monotone", fmt.Sprintf("succeeds with limit %d but fails with the larger limit (%s)", f, where), want.String(), got.String())
						}
					case c13OK:
						nOK++
						if !c13Same(got, want) {
							fail("result-differs", "result under the limit differs from the unlimited result ("+where+")", want.String(), got.String())
						}
						if _, ok := firstOK[key{ii, ki}]; !ok {
							firstOK[key{ii, ki}] = L
						}
					}
				}
			}
			if o.Fail != nil {
				break
			}
			// one shared Regexp used for every input in turn (forwards, then backwards): a call after an
			// error, or after the stack has grown, must behave like a call on a fresh Regexp
			re, err := c13Compile(cs.Pattern, cs.Opts, L)
			if err != nil {
				continue
			}
			order := make([]int, 0, 2*len(cs.Inputs))
			for ii := range cs.Inputs {
				order = append(order, ii)
			}
			for ii := len(cs.Inputs) - 1; ii >= 0; ii-- {
				order = append(order, ii)
			}
			prevErr := false
			for _, ii := range order {
				for ki, k := range calls {
					want, ok := fresh[key{ii, ki}]
					if !ok || want.Kind == c13OtherErr || want.Kind == c13Panic {
						continue
					}
					regexp2.VerifResetMaxTrackCap()
					got := k.f(re, cs.Inputs[ii])
					capHW := regexp2.VerifMaxTrackCap()
					where := fmt.Sprintf("%s, limit %d, input %q, reused Regexp", k.name, L, cs.Inputs[ii])
					if L >= 0 && capHW > L {
						fail("cap-exceeds-limit", fmt.Sprintf("backtracking stack of %d slots allocated (%s)", capHW, where), fmt.Sprintf("<= %d", L), fmt.Sprint(capHW))
					}
					if got.Kind == c13Panic {
						fail("panic:"+c13PanicClass(got.Detail), fmt.Sprintf("panic (%s): %s", where, got.Detail), want.String(), got.String())
					} else if got.Kind != c13OtherErr && !c13Same(got, want) {
						kk := "reuse-differs"
						if prevErr {
							kk = "unusable-after-error"
						}
						fail(kk, "a reused Regexp answers differently from a fresh one ("+where+")", want.String(), got.String())
					}
					prevErr = got.Kind == c13LimitErr
				}
			}
			if o.Fail != nil {
				break
			}
		}
		o.Nontrivial = nMid > 0 && nOK > 0
		switch {
		case nMid > 0 && nOK > 0:
			o.Buckets = append(o.Buckets, "cut-off-mid-run-at-some-limit")
		case nErr > 0 && nOK > 0:
			o.Buckets = append(o.Buckets, "fails-only-at-first-check")
		case nErr > 0:
			o.Buckets = append(o.Buckets, "only-limit-errors")
		default:
			o.Buckets = append(o.Buckets, "never-limited")
		}
	}
	return outs
}

func c13Bucket(n int) string {
	switch {
	case n <= 4:
		return "1-4"
	case n <= 8:
		return "5-8"
	case n <= 16:
		return "9-16"
	case n <= 32:
		return "17-32"
	default:
		return "33+"
	}
}

func c13PanicClass(s string) string {
	switch {
	case strings.Contains(s, "index out of range [-"):
		return "negative-index"
	case strings.Contains(s, "index out of range"):
		return "index"
	case strings.Contains(s, "slice bounds"):
		return "slice-bounds"
	}
	return "other"
}

var _ = syntax.Stop

func init() {
	core.Register("C13", func(c *core.Ctx) {
		corpus := []c13Case{
			// the truncated-growth overrun fixed by 23c41f0
			{Pattern: `(?:xa??b??c??d??e??f??g??h??i??j??k??)*y`, Inputs: []string{strings.Repeat("x", 60), strings.Repeat("x", 60) + "y"}, Limits: []int{257, 256, 258, 64, 1000, c13Default}},
			{Pattern: `(?:^){40}`, Inputs: []string{"", "a"}, Limits: []int{0, 1, 32, 64, 100, c13Default}},
			{Pattern: `(a|b)*c`, Inputs: []string{strings.Repeat("ab", 100) + "c", "c", ""}, Limits: []int{0, 3, 4, 8, 63, 64, 65, 100, 257, 1000, c13Default}},
			{Pattern: `(?<=(a)+?)\1b`, Opts: int(regexp2.RightToLeft), Inputs: []string{"aaaab", "b"}, Limits: []int{0, 20, 64, c13Default}},
		}
		core.RunLeg(c, core.Leg[c13Case]{
			Name: "O", Kind: "oracle",
			Rule: "every 4th case a linear family (loop bodies of alternations/lazy optionals/counted loops/backrefs/conditionals/lookarounds/atomic groups over inputs of 5-125 repeated units), every 4th a tower of 2-11 nested quantified groups, the rest random ASTs of depth 3-6 (literals, classes, anchors, concatenation, 2-6-way alternation, greedy/lazy * + ? {m,n} {m,} {m}, captures, named captures, four lookarounds, atomic groups, backrefs, conditionals) under one of 10 option sets; inputs: two samples drawn from the pattern (sometimes padded), one random text, sometimes a long random text; limits: 0,64,100,257,1000,default plus 12 random values of 1..63 (thorough: all of 0..64) plus alloc+{-4,-1,0,1,4}, 4tc+{…}, 2alloc+{…} where alloc=max(64,8·TrackCount), and -1. Per (limit,input,call∈{FindStringMatch+3×FindNextMatch, MatchString}) on a fresh Regexp: no panic; result identical to the unlimited result or exactly ErrBacktrackingStackLimit (matches returned before the error identical too); VerifMaxTrackCap ≤ L; success at L ⇒ success at every larger limit; then one Regexp reused over all inputs forwards and backwards answers like the fresh ones (usable after an error). non-trivial = some limit ≥ 4·TrackCount fails (run cut off after its first storage check) and some limit succeeds; distinct by (pattern,options,inputs)",
			Corpus: corpus, N: c.N(300, 9000), Gen: c13GenCase(c), Check: c13CheckO, Batch: 50,
		})
	})
}
