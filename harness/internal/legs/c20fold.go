package legs

import (
	"fmt"
	"math/rand"
	"strings"

	"github.com/dlclark/regexp2/v2/helpers"

	"rvharness/internal/core"
)

// C20, leg Fa — the ASCII case-folding searches behind the ignore-case prefix fast paths
// (helpers.IndexStringIgnoreCaseASCII, EqualStringIgnoreCaseASCII, IndexOfIgnoreCaseAscii), called
// directly with strings over the WHOLE ASCII letter range and its neighbours (@ [ ` {), against a naive
// search whose folding is written independently (a letter is A–Z or a–z; fold = | 0x20). The pattern
// generators draw their letters from a small alphabet, so a slip at one end of the range ('Z', 'A', '@',
// '[') would not show through the engine.

type c20FoldCase struct {
	S      string `json:"s"`
	Prefix string `json:"prefix"`
}

func c20FoldGen(rng *rand.Rand, i int) c20FoldCase {
	alpha := "azAZ@[`{bByYkKsS09 _-\x00\x7fmM"
	if i%3 == 0 {
		alpha = "zZaA@[`{"
	}
	pick := func(n int) string {
		var sb strings.Builder
		for k := 0; k < n; k++ {
			sb.WriteByte(alpha[rng.Intn(len(alpha))])
		}
		return sb.String()
	}
	cs := c20FoldCase{S: pick(rng.Intn(14)), Prefix: pick(rng.Intn(4))}
	if rng.Intn(2) == 0 && len(cs.S) > 0 {
		// an occurrence in the other case somewhere in the subject
		p := rng.Intn(len(cs.S) + 1)
		flip := func(s string) string {
			b := []byte(s)
			for j, c := range b {
				if c >= 'a' && c <= 'z' {
					b[j] = c - 32
				} else if c >= 'A' && c <= 'Z' {
					b[j] = c + 32
				}
			}
			return string(b)
		}
		cs.S = cs.S[:p] + flip(cs.Prefix) + cs.S[p:]
	}
	return cs
}

func c20NaiveFold(c byte) byte {
	if (c >= 'A' && c <= 'Z') || (c >= 'a' && c <= 'z') {
		return c | 0x20
	}
	return c
}

func c20NaiveEq(s, p string) bool {
	if len(s) < len(p) {
		return false
	}
	for i := 0; i < len(p); i++ {
		if c20NaiveFold(s[i]) != c20NaiveFold(p[i]) {
			return false
		}
	}
	return true
}

func c20NaiveIndex(s, p string) int {
	for i := 0; i+len(p) <= len(s); i++ {
		if c20NaiveEq(s[i:], p) {
			return i
		}
	}
	return -1
}

func c20FoldCheck(c *core.Ctx, cases []c20FoldCase) []core.Outcome {
	outs := make([]core.Outcome, len(cases))
	for i, cs := range cases {
		o := &outs[i]
		o.Key = cs.S + "\x00" + cs.Prefix
		o.Nontrivial = len(cs.Prefix) > 0 && len(cs.S) > 0
		want := c20NaiveIndex(cs.S, cs.Prefix)
		if want >= 0 {
			o.Buckets = append(o.Buckets, "found")
		} else {
			o.Buckets = append(o.Buckets, "not-found")
		}
		fail := func(fn string, exp, got any) {
			if o.Fail == nil {
				o.Fail = &core.Failure{Kind: "impl-violation", Key: "Fa:" + fn,
					Summary:  fmt.Sprintf("helpers.%s(%q, %q) is not the ASCII case-insensitive answer", fn, cs.S, cs.Prefix),
					Expected: fmt.Sprint(exp), Got: fmt.Sprint(got)}
			}
		}
		if got := helpers.IndexStringIgnoreCaseASCII(cs.S, cs.Prefix); got != want {
			fail("IndexStringIgnoreCaseASCII", want, got)
		}
		if got, w := helpers.EqualStringIgnoreCaseASCII(cs.S, cs.Prefix), c20NaiveEq(cs.S, cs.Prefix); got != w {
			fail("EqualStringIgnoreCaseASCII", w, got)
		}
		if got := helpers.IndexOfIgnoreCaseAscii([]rune(cs.S), []rune(cs.Prefix)); got != want {
			fail("IndexOfIgnoreCaseAscii", want, got)
		}
	}
	return outs
}

func c20FoldLeg(c *core.Ctx) {
	core.RunLeg(c, core.Leg[c20FoldCase]{
		Name: "Fa", Kind: "oracle(ASCII case-folding searches of the prefix fast paths)",
		Rule: "subjects of 0-13 and prefixes of 0-3 bytes over a z A Z @ [ ` { (the ends of the two letter ranges and their neighbours) plus b B y Y k K s S digits blank NUL DEL, half of them with an occurrence of the prefix in the other case spliced in; helpers.IndexStringIgnoreCaseASCII, EqualStringIgnoreCaseASCII and IndexOfIgnoreCaseAscii must give the answer of a naive search whose folding is written independently (letters A-Z a-z, fold = |0x20); non-trivial = both non-empty",
		N:    c.N(20000, 2000000), Gen: c20FoldGen, Check: c20FoldCheck, Batch: 5000,
	})
}
