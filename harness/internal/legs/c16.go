package legs

import (
	"fmt"
	"math/rand"
	"os"
	"regexp"
	"sort"
	"strings"
	"unicode"

	"rvharness/internal/core"

	regexp2 "github.com/dlclark/regexp2/v2"
	"github.com/dlclark/regexp2/v2/syntax"
)

// C16 — character-class membership is exact set algebra.
//
// Leg K draws class expressions from a grammar (AST below), prints them as pattern text, and
//   (a) model-free oracle: Go's answers (CharIn / VerifCharInSlow on the compiled set, MatchRunes of
//       ^[…]$, x*[…], ^[…]+$ on single runes, bulk scans of […] and ^[…]+$ over members /
//       non-members) must equal set algebra recomputed here from the AST with Go's unicode tables
//       and the standard library's regexp (POSIX names, RE2 shorthands);
//   (b) correspondence: the compiled CharSet's structure (VerifDump) goes to the Lean driver with a
//       rune sample and category-oracle rows; Lean's memAlg / charInSlow / charIn(prepare) must equal
//       Go's CharIn; the parser's effect on the item list (Lean `build`) must equal the dumped
//       structure (ranges after canonicalize, categories, negate, anything), level by level; under
//       IgnoreCase Lean's buildItems → addLowercase → Copy → addCaseEquivalences must equal the
//       case-insensitive parse (classes whose ranges cover at most 3000 runes).

type c16Item struct {
	K    string `json:"k"` // "r" range (Lo..Hi), "sh" shorthand d/w/s, "p" \p{Name}, "px" [:name:]
	Lo   rune   `json:"lo,omitempty"`
	Hi   rune   `json:"hi,omitempty"`
	Name string `json:"name,omitempty"`
	Neg  bool   `json:"neg,omitempty"` // \D \W \S, \P{..}, [:^name:]
}

type c16Class struct {
	Neg   bool      `json:"neg,omitempty"`
	Items []c16Item `json:"items"`
	Sub   *c16Class `json:"sub,omitempty"`
}

type c16Case struct {
	Class    c16Class `json:"class"`
	Opts     int      `json:"opts"` // regexp2 option bits: IgnoreCase 1, ECMAScript 256, RE2 512
	NoBitmap bool     `json:"nobitmap,omitempty"`
	Full     bool     `json:"full,omitempty"` // exhaustive rune domain
	Salt     int64    `json:"salt"`           // seed of the rune sample
}

const (
	c16I   = 1
	c16E   = 256
	c16RE2 = 512
	c16Max = 0x10FFFF
)

var c16Props = []string{"L", "Lu", "Ll", "Lt", "Lm", "Lo", "M", "Mn", "Mc", "N", "Nd", "Nl", "No", "P", "Pc", "Pd", "Ps", "Pe", "Po",
	"S", "Sm", "Sc", "Sk", "So", "Z", "Zs", "Zl", "Zp", "C", "Cc", "Cf", "Co", "Greek", "Latin", "Cyrillic", "Han", "Hiragana",
	"Arabic", "Hebrew", "Common", "White_Space", "Hex_Digit", "ASCII_Hex_Digit", "Dash"}

var c16Posix = []string{"alnum", "alpha", "ascii", "blank", "cntrl", "digit", "graph", "lower", "print", "punct", "space", "upper", "word", "xdigit"}

var c16Interesting = []rune{0, 1, 9, 10, 11, 12, 13, 14, 0x1f, 0x20, 0x21, '-', '/', '0', '5', '9', ':', '@', 'A', 'K', 'S', 'Z', '[', '\\', ']', '^', '_', '`', 'a', 'i', 'k', 's', 'z', '{', 0x7e, 0x7f,
	0x80, 0x85, 0xa0, 0xa1, 0xaa, 0xb5, 0xba, 0xc0, 0xd7, 0xdf, 0xe0, 0xf7, 0xff, 0x100, 0x130, 0x131, 0x149, 0x17f, 0x180, 0x1c4, 0x1c5, 0x1c6, 0x24f, 0x250, 0x2b0, 0x300, 0x345, 0x370, 0x37e, 0x390, 0x391, 0x3a3, 0x3c2, 0x3c3, 0x3a9, 0x3c9, 0x3f4, 0x400, 0x410, 0x430, 0x4ff,
	0x5d0, 0x660, 0x661, 0x669, 0x66a, 0x966, 0x1680, 0x1681, 0x180e, 0x1e9e, 0x1fff, 0x2000, 0x200a, 0x200b, 0x200c, 0x200d, 0x200e, 0x2027, 0x2028, 0x2029, 0x202a, 0x202f, 0x2030, 0x203f, 0x205f, 0x2060, 0x2126, 0x212a, 0x212b, 0x2160, 0x2170, 0x24b6, 0x24d0,
	0x3000, 0x3001, 0x3041, 0x4e00, 0xa640, 0xd7ff, 0xd800, 0xdfff, 0xe000, 0xfb00, 0xfefe, 0xfeff, 0xff00, 0xff10, 0xff21, 0xff41, 0xfffd, 0xfffe, 0xffff, 0x10000, 0x10400, 0x10428, 0x1d400, 0x1d7ce, 0x1f600, 0x2fa1d, 0xe0001, 0xf0000, 0x10fffd, 0x10fffe, 0x10ffff}

// ---- printing ----------------------------------------------------------------------------------

func c16Esc(sb *strings.Builder, r rune) {
	if r < 0x80 && !(r >= '0' && r <= '9' || r >= 'a' && r <= 'z' || r >= 'A' && r <= 'Z') {
		fmt.Fprintf(sb, `\x%02x`, r)
		return
	}
	sb.WriteRune(r)
}

func (c *c16Class) write(sb *strings.Builder) {
	sb.WriteByte('[')
	if c.Neg {
		sb.WriteByte('^')
	}
	for _, it := range c.Items {
		switch it.K {
		case "r":
			c16Esc(sb, it.Lo)
			if it.Hi != it.Lo {
				sb.WriteByte('-')
				c16Esc(sb, it.Hi)
			}
		case "sh":
			n := it.Name
			if it.Neg {
				n = strings.ToUpper(n)
			}
			sb.WriteString(`\` + n)
		case "p":
			if it.Neg {
				sb.WriteString(`\P{` + it.Name + `}`)
			} else {
				sb.WriteString(`\p{` + it.Name + `}`)
			}
		case "px":
			if it.Neg {
				sb.WriteString(`[:^` + it.Name + `:]`)
			} else {
				sb.WriteString(`[:` + it.Name + `:]`)
			}
		}
	}
	if c.Sub != nil {
		sb.WriteByte('-')
		c.Sub.write(sb)
	}
	sb.WriteByte(']')
}

func (c *c16Class) String() string {
	var sb strings.Builder
	c.write(&sb)
	return sb.String()
}

func (c *c16Class) depth() int {
	if c.Sub == nil {
		return 0
	}
	return 1 + c.Sub.depth()
}

// ---- the independent set algebra ---------------------------------------------------------------

var c16PosixTab = func() map[string][]bool {
	m := map[string][]bool{}
	for _, n := range append(append([]string{}, c16Posix...), `\d`, `\w`, `\s`) {
		pat := `^[[:` + n + `:]]$`
		if n[0] == '\\' {
			pat = `^` + n + `$`
		}
		re := regexp.MustCompile(pat)
		t := make([]bool, 0x300)
		for r := range t {
			t[r] = re.MatchString(string(rune(r)))
		}
		m[n] = t
	}
	return m
}()

func c16Tab(name string, ch rune) bool {
	t := c16PosixTab[name]
	return ch >= 0 && int(ch) < len(t) && t[ch]
}

// tables by name, straight from package unicode (not from /repo's unicodeCategories)
func c16Table(name string) *unicode.RangeTable {
	if t, ok := unicode.Categories[name]; ok {
		return t
	}
	if t, ok := unicode.Scripts[name]; ok {
		return t
	}
	if t, ok := unicode.Properties[name]; ok {
		return t
	}
	if a, ok := unicode.CategoryAliases[name]; ok {
		return unicode.Categories[a]
	}
	return nil
}

// c16CatMem is the meaning of one category name as it appears in a dumped CharSet
func c16CatMem(name string, ch rune) (bool, bool) {
	switch name {
	case " ":
		return unicode.Is(unicode.White_Space, ch), true
	case "W":
		return isWordCharStd(ch), true
	}
	t := c16Table(name)
	if t == nil {
		return false, false
	}
	return unicode.Is(t, ch), true
}

func c16FoldOrbit(ch rune) []rune {
	out := []rune{ch}
	if ch < 0 || ch > c16Max {
		return out
	}
	for r := unicode.SimpleFold(ch); r != ch; r = unicode.SimpleFold(r) {
		out = append(out, r)
	}
	return out
}

// runes whose lowercase is not in their own SimpleFold orbit (U+0130 İ → i), keyed by that lowercase
var c16LowerPreimage = func() map[rune][]rune {
	m := map[rune][]rune{}
	for e := rune(0); e <= c16Max; e++ {
		l := unicode.ToLower(e)
		if l == e {
			continue
		}
		in := false
		for _, o := range c16FoldOrbit(e) {
			if o == l {
				in = true
			}
		}
		if !in {
			m[l] = append(m[l], e)
		}
	}
	return m
}()

// c16Orbit(ch): ch first, then every rune e that is case-equivalent to ch in the sense that ch is
// in the SimpleFold orbit of e or of ToLower(e) — "e in the class makes ch match under IgnoreCase"
func c16Orbit(ch rune) []rune {
	out := c16FoldOrbit(ch)
	n := len(out)
	for _, o := range out[:n] {
		out = append(out, c16LowerPreimage[o]...)
	}
	return out
}

type c16Sem struct{ ci, ecma, re2 bool }

func c16SemOf(opts int) c16Sem { return c16Sem{opts&c16I != 0, opts&c16E != 0, opts&c16RE2 != 0} }

func c16ECMASpace(ch rune) bool {
	return ch >= 9 && ch <= 13 || ch == 0x2028 || ch == 0x2029 || ch == 0xfeff || unicode.Is(unicode.Zs, ch)
}

// rangeBased reports whether the item denotes a fixed set of code points (ranges in the
// implementation) — those are closed under case equivalence when IgnoreCase is on — and gives
// its plain membership test.
func (s c16Sem) plain(it c16Item) (func(rune) bool, bool) {
	switch it.K {
	case "r":
		return func(ch rune) bool { return it.Lo <= ch && ch <= it.Hi }, true
	case "sh":
		var f func(rune) bool
		rb := s.ecma || s.re2
		switch it.Name {
		case "d":
			if s.ecma {
				f = func(ch rune) bool { return ch >= '0' && ch <= '9' }
			} else if s.re2 {
				f = func(ch rune) bool { return c16Tab(`\d`, ch) }
			} else {
				f = func(ch rune) bool { return unicode.Is(unicode.Nd, ch) }
			}
		case "w":
			if s.ecma {
				f = func(ch rune) bool {
					return ch >= '0' && ch <= '9' || ch >= 'a' && ch <= 'z' || ch >= 'A' && ch <= 'Z' || ch == '_'
				}
			} else if s.re2 {
				f = func(ch rune) bool { return c16Tab(`\w`, ch) }
			} else {
				f = isWordCharStd
			}
		case "s":
			if s.ecma {
				f = c16ECMASpace
			} else if s.re2 {
				f = func(ch rune) bool { return c16Tab(`\s`, ch) }
			} else {
				f = func(ch rune) bool { return unicode.Is(unicode.White_Space, ch) }
			}
		}
		if it.Neg {
			g := f
			f = func(ch rune) bool { return !g(ch) }
		}
		return f, rb
	case "p":
		t := c16Table(it.Name)
		f := func(ch rune) bool { return unicode.Is(t, ch) }
		if s.ci && (it.Name == "Lu" || it.Name == "Ll" || it.Name == "Lt") {
			f = func(ch rune) bool { return unicode.In(ch, unicode.Lu, unicode.Ll, unicode.Lt) }
			if it.Neg {
				// not-Lu ∪ not-Ll ∪ not-Lt
				return func(rune) bool { return true }, false
			}
		}
		if it.Neg {
			g := f
			f = func(ch rune) bool { return !g(ch) }
		}
		return f, false
	case "px":
		n := it.Name
		f := func(ch rune) bool { return c16Tab(n, ch) }
		if it.Neg {
			f = func(ch rune) bool { return !c16Tab(n, ch) }
		}
		return f, true
	}
	return func(rune) bool { return false }, false
}

type c16Compiled struct {
	neg   bool
	items []func(rune) bool
	fold  []bool
	sub   *c16Compiled
	ci    bool
}

func (s c16Sem) compile(c *c16Class) *c16Compiled {
	out := &c16Compiled{neg: c.Neg, ci: s.ci}
	for _, it := range c.Items {
		f, rb := s.plain(it)
		out.items = append(out.items, f)
		out.fold = append(out.fold, rb && s.ci)
	}
	if c.Sub != nil {
		out.sub = s.compile(c.Sub)
	}
	return out
}

// mem: ((some item has ch, or — case-insensitively, for code-point items — a case equivalent of ch)
// xor negated) and not member of the subtracted class
func (c *c16Compiled) mem(ch rune, orbit []rune) bool {
	pos := false
	for i, f := range c.items {
		if f(ch) {
			pos = true
			break
		}
		if c.fold[i] {
			for _, e := range orbit[1:] {
				if f(e) {
					pos = true
					break
				}
			}
			if pos {
				break
			}
		}
	}
	if pos == c.neg {
		return false
	}
	if c.sub != nil && c.sub.mem(ch, orbit) {
		return false
	}
	return true
}

// under IgnoreCase the domain is ASCII, letters forming a plain upper/lower pair, and caseless runes
func c16InCIDomain(ch rune) bool {
	if ch < 0x80 {
		return true
	}
	o := c16Orbit(ch)
	if len(o) == 1 {
		return !unicode.In(ch, unicode.Lu, unicode.Ll, unicode.Lt) && unicode.ToLower(ch) == ch && unicode.ToUpper(ch) == ch
	}
	if len(o) != 2 || o[1] < 0x80 {
		return false
	}
	a, b := o[0], o[1]
	return unicode.IsUpper(a) && unicode.IsLower(b) && unicode.ToLower(a) == b && unicode.ToUpper(b) == a ||
		unicode.IsUpper(b) && unicode.IsLower(a) && unicode.ToLower(b) == a && unicode.ToUpper(a) == b
}

// ---- generator ---------------------------------------------------------------------------------

func c16Rune(rng *rand.Rand, ascii bool) rune {
	if ascii {
		if rng.Intn(3) == 0 {
			for {
				r := c16Interesting[rng.Intn(len(c16Interesting))]
				if r < 0x80 {
					return r
				}
			}
		}
		return rune(rng.Intn(0x80))
	}
	for {
		var r rune
		switch rng.Intn(10) {
		case 0, 1, 2:
			r = rune(rng.Intn(0x80))
		case 3, 4:
			r = c16Interesting[rng.Intn(len(c16Interesting))]
		case 5, 6:
			r = rune(rng.Intn(0x250))
		case 7:
			r = rune(rng.Intn(0x10000))
		case 8:
			r = rune(0x10000 + rng.Intn(0x100000))
		default:
			r = []rune{0, 1, c16Max - 1, c16Max}[rng.Intn(4)]
		}
		if r < 0xd800 || r > 0xdfff {
			return r
		}
	}
}

func c16GenItem(rng *rand.Rand, opts int) c16Item {
	ci, ecma, re2 := opts&c16I != 0, opts&c16E != 0, opts&c16RE2 != 0
	for {
		switch rng.Intn(10) {
		case 0, 1, 2: // single char
			r := c16Rune(rng, ci)
			return c16Item{K: "r", Lo: r, Hi: r}
		case 3, 4, 5: // range
			a, b := c16Rune(rng, ci), c16Rune(rng, ci)
			if rng.Intn(3) == 0 { // short range
				b = a + rune(rng.Intn(6))
				if b > c16Max || (b >= 0xd800 && b <= 0xdfff) || (ci && b >= 0x80) {
					b = a
				}
			}
			if a > b {
				a, b = b, a
			}
			return c16Item{K: "r", Lo: a, Hi: b}
		case 6, 7:
			return c16Item{K: "sh", Name: []string{"d", "w", "s"}[rng.Intn(3)], Neg: rng.Intn(2) == 0}
		case 8:
			if ecma {
				continue
			}
			return c16Item{K: "p", Name: c16Props[rng.Intn(len(c16Props))], Neg: rng.Intn(3) == 0}
		default:
			if !re2 {
				continue
			}
			return c16Item{K: "px", Name: c16Posix[rng.Intn(len(c16Posix))], Neg: rng.Intn(3) == 0}
		}
	}
}

func c16GenClass(rng *rand.Rand, opts, depth int) c16Class {
	c := c16Class{Neg: rng.Intn(4) == 0}
	n := 1 + rng.Intn(4)
	if rng.Intn(6) == 0 {
		n = 5 + rng.Intn(8) // more than four ranges: the binary-search path
	}
	for i := 0; i < n; i++ {
		c.Items = append(c.Items, c16GenItem(rng, opts))
	}
	if rng.Intn(12) == 0 && opts&c16I == 0 {
		// "everything but a gap": the negated normal forms
		g := c16Rune(rng, false)
		h := g + rune(rng.Intn(3))
		if g > 0 && h < c16Max && !(h >= 0xd7ff && g <= 0xe000) {
			c.Items = append(c.Items, c16Item{K: "r", Lo: 0, Hi: g - 1}, c16Item{K: "r", Lo: h + 1, Hi: c16Max})
			rng.Shuffle(len(c.Items), func(i, j int) { c.Items[i], c.Items[j] = c.Items[j], c.Items[i] })
		}
	}
	if rng.Intn(10) == 0 {
		// a category together with its own negation: the base collapses to "anything" while it is parsed, and
		// what remains of the class is its subtraction (with case partners under IgnoreCase)
		var a c16Item
		if opts&c16E == 0 && rng.Intn(3) == 0 {
			a = c16Item{K: "p", Name: c16Props[rng.Intn(len(c16Props))]}
		} else {
			a = c16Item{K: "sh", Name: []string{"d", "w", "s"}[rng.Intn(3)]}
		}
		b := a
		b.Neg = true
		c.Items = append(c.Items, a, b)
		rng.Shuffle(len(c.Items), func(i, j int) { c.Items[i], c.Items[j] = c.Items[j], c.Items[i] })
		if depth < 3 && rng.Intn(3) != 0 {
			s := c16Class{}
			for k := 1 + rng.Intn(3); k > 0; k-- {
				s.Items = append(s.Items, c16GenItem(rng, opts))
			}
			c.Sub = &s
			return c
		}
	}
	if depth < 3 && rng.Intn(3) == 0 {
		s := c16GenClass(rng, opts, depth+1)
		c.Sub = &s
	}
	return c
}

var c16OptSets = []int{0, 0, c16I, c16E, c16E | c16I, c16RE2, c16RE2 | c16I}

func c16OptName(o int) string {
	n := ""
	if o&c16E != 0 {
		n += "ecma"
	}
	if o&c16RE2 != 0 {
		n += "re2"
	}
	if o&c16I != 0 {
		n += "+i"
	}
	if n == "" {
		n = "default"
	}
	return n
}

// ---- running the real code ---------------------------------------------------------------------

func c16Compile(pat string, cs *c16Case) (*regexp2.Regexp, error) {
	if cs.NoBitmap {
		return regexp2.Compile(pat, regexp2.RegexOptions(cs.Opts), regexp2.OptionDisableCharClassASCIIBitmap())
	}
	return regexp2.Compile(pat, regexp2.RegexOptions(cs.Opts))
}

// c16Leaf finds the node a lone class was parsed to: a set, or (reduceSet) One / Notone
func c16Leaf(n *syntax.RegexNode) *syntax.RegexNode {
	if n == nil {
		return nil
	}
	if n.Set != nil || n.T == syntax.NtOne || n.T == syntax.NtNotone || n.T == syntax.NtSet {
		return n
	}
	for _, ch := range n.Children {
		if l := c16Leaf(ch); l != nil {
			return l
		}
	}
	return nil
}

type c16Dump = syntax.VerifCharSet

func c16ParseDump(cls string, opts int) (*c16Dump, error) {
	tree, err := syntax.Parse(cls, syntax.ParseOptions{RegexOptions: syntax.RegexOptions(opts)})
	if err != nil {
		return nil, err
	}
	l := c16Leaf(tree.Root)
	if l == nil {
		return nil, fmt.Errorf("no class node in the tree of %q", cls)
	}
	if l.Set != nil {
		return l.Set.VerifDump(), nil
	}
	// reduceSet turned the class into One / Notone: the singleton forms
	return &c16Dump{Ranges: [][2]rune{{l.Ch, l.Ch}}, Negate: l.T == syntax.NtNotone}, nil
}

// wire format of a dumped class for the Lean driver; cat names become numbers through ids
func c16DumpSexp(d *c16Dump, ids map[string]int, withSub bool) string {
	var rs []int
	for _, r := range d.Ranges {
		rs = append(rs, int(r[0]), int(r[1]))
	}
	var cs []int
	for _, c := range d.Categories {
		id, ok := ids[c.Cat]
		if !ok {
			id = len(ids)
			ids[c.Cat] = id
		}
		cs = append(cs, id, b2int(c.Negate))
	}
	parts := []string{"(rs" + c16Tail(rs) + ")", "(cs" + c16Tail(cs) + ")", core.SBool(d.Negate), core.SBool(d.Anything), core.SBool(d.HasBitmap)}
	if withSub && d.Sub != nil {
		parts = append(parts, c16DumpSexp(d.Sub, ids, true))
	}
	return core.S("cls", parts...)
}

// answer format of the Lean driver for a class: (cls (flat (rs…) (cs…) neg any) sub?)
func c16DumpFlat(d *c16Dump, ids map[string]int) string {
	var rs []int
	for _, r := range d.Ranges {
		rs = append(rs, int(r[0]), int(r[1]))
	}
	var cs []int
	for _, c := range d.Categories {
		id, ok := ids[c.Cat]
		if !ok {
			id = len(ids)
			ids[c.Cat] = id
		}
		cs = append(cs, id, b2int(c.Negate))
	}
	return core.S("flat", "(rs"+c16Tail(rs)+")", "(cs"+c16Tail(cs)+")", core.SBool(d.Negate), core.SBool(d.Anything))
}

func c16DumpCls(d *c16Dump, ids map[string]int) string {
	if d.Sub != nil {
		return core.S("cls", c16DumpFlat(d, ids), c16DumpCls(d.Sub, ids))
	}
	return core.S("cls", c16DumpFlat(d, ids))
}

func c16Tail(xs []int) string {
	var sb strings.Builder
	for _, x := range xs {
		fmt.Fprintf(&sb, " %d", x)
	}
	return sb.String()
}

func b2int(b bool) int {
	if b {
		return 1
	}
	return 0
}

// oracle rows for the driver: per category id the runes of `runes` that are in the category
func c16OracleRows(ids map[string]int, runes []rune) (string, bool) {
	names := make([]string, 0, len(ids))
	for n := range ids {
		names = append(names, n)
	}
	sort.Slice(names, func(i, j int) bool { return ids[names[i]] < ids[names[j]] })
	var sb strings.Builder
	sb.WriteString("(oracle")
	for _, n := range names {
		fmt.Fprintf(&sb, " (%d", ids[n])
		for _, r := range runes {
			in, ok := c16CatMem(n, r)
			if !ok {
				return "", false
			}
			if in {
				fmt.Fprintf(&sb, " %d", r)
			}
		}
		sb.WriteByte(')')
	}
	sb.WriteByte(')')
	return sb.String(), true
}

// the item list scanCharSet adds for one level of the AST (no IgnoreCase), in the driver's syntax
var c16Shorthand = func() map[string][][2]rune {
	m := map[string][][2]rune{}
	for n, f := range map[string]func() *syntax.CharSet{
		"ecma-d": syntax.ECMADigitClass, "ecma-D": syntax.NotECMADigitClass, "ecma-w": syntax.ECMAWordClass, "ecma-W": syntax.NotECMAWordClass,
		"ecma-s": syntax.ECMASpaceClass, "ecma-S": syntax.NotECMASpaceClass, "re2-s": syntax.RE2SpaceClass, "re2-S": syntax.NotRE2SpaceClass} {
		m[n] = f().VerifDump().Ranges
	}
	return m
}()

// POSIX tables as written in addNamedASCII (transcribed; their meaning is checked against the
// standard library in the oracle half)
var c16PosixRanges = map[string][][2]rune{
	"alnum": {{'0', '9'}, {'A', 'Z'}, {'a', 'z'}}, "alpha": {{'A', 'Z'}, {'a', 'z'}}, "ascii": {{0, 0x7f}}, "blank": {{'\t', '\t'}, {' ', ' '}},
	"cntrl": {{0, 0x1f}, {0x7f, 0x7f}}, "digit": {{'0', '9'}}, "graph": {{'!', '~'}}, "lower": {{'a', 'z'}}, "print": {{' ', '~'}},
	"punct": {{'!', '/'}, {':', '@'}, {'[', '`'}, {'{', '~'}}, "space": {{'\t', '\r'}, {' ', ' '}}, "upper": {{'A', 'Z'}}, "xdigit": {{'0', '9'}, {'A', 'F'}, {'a', 'f'}},
}

func c16RangesSexp(tag string, rs [][2]rune) string {
	var xs []int
	for _, r := range rs {
		xs = append(xs, int(r[0]), int(r[1]))
	}
	return "(" + tag + c16Tail(xs) + ")"
}

func c16ItemsSexp(c *c16Class, opts int, ids map[string]int, ends *[]rune) string {
	ecma, re2 := opts&c16E != 0, opts&c16RE2 != 0
	id := func(n string) int {
		v, ok := ids[n]
		if !ok {
			v = len(ids)
			ids[n] = v
		}
		return v
	}
	table := func(key string) string {
		rs := c16Shorthand[key]
		for _, r := range rs {
			*ends = append(*ends, r[0], r[1])
		}
		return c16RangesSexp("rs", rs)
	}
	var parts []string
	short := func(name string, neg, ecmaLike, re2Space bool) string {
		up := name
		if neg {
			up = strings.ToUpper(name)
		}
		switch {
		case name == "s" && ecma, name != "s" && ecmaLike:
			return table("ecma-" + up)
		case name == "s" && re2Space:
			return table("re2-" + up)
		}
		cat := map[string]string{"d": "Nd", "w": "W", "s": " "}[name]
		return fmt.Sprintf("(cs %d %d)", id(cat), b2int(neg))
	}
	for _, it := range c.Items {
		switch it.K {
		case "r":
			*ends = append(*ends, it.Lo, it.Hi)
			parts = append(parts, fmt.Sprintf("(r %d %d)", it.Lo, it.Hi))
		case "sh":
			parts = append(parts, short(it.Name, it.Neg, ecma || re2, re2))
		case "p":
			if opts&c16I != 0 && (it.Name == "Ll" || it.Name == "Lu" || it.Name == "Lt") {
				// addCategory under IgnoreCase: all three case categories, then the named one
				n := b2int(it.Neg)
				parts = append(parts, fmt.Sprintf("(cs %d %d %d %d %d %d)", id("Ll"), n, id("Lu"), n, id("Lt"), n))
			}
			parts = append(parts, fmt.Sprintf("(cs %d %d)", id(it.Name), b2int(it.Neg)))
		case "px":
			switch it.Name {
			case "word": // addWord(true, negate)
				if it.Neg {
					parts = append(parts, table("ecma-W"))
				} else {
					parts = append(parts, table("ecma-w"))
				}
			default:
				rs := c16PosixRanges[it.Name]
				if it.Neg {
					// the ranges that end up in the class are the complement
					hi := rune(0)
					for _, r := range rs {
						if hi < r[0] {
							*ends = append(*ends, hi, r[0]-1)
						}
						hi = r[1] + 1
					}
					*ends = append(*ends, hi, c16Max)
					parts = append(parts, c16RangesSexp("nrs", rs))
				} else {
					for _, r := range rs {
						*ends = append(*ends, r[0], r[1])
					}
					parts = append(parts, c16RangesSexp("rs", rs))
				}
			}
		}
	}
	return "(" + strings.Join(parts, " ") + ")"
}

// ---- rune domains ------------------------------------------------------------------------------

func c16Endpoints(c *c16Class, out *[]rune) {
	for _, it := range c.Items {
		if it.K == "r" {
			*out = append(*out, it.Lo, it.Hi)
		}
	}
	if c.Sub != nil {
		c16Endpoints(c.Sub, out)
	}
}

func c16DumpEndpoints(d *c16Dump, out *[]rune) {
	for d != nil {
		for _, r := range d.Ranges {
			*out = append(*out, r[0], r[1])
		}
		d = d.Sub
	}
}

func c16Uniq(rs []rune, keep func(rune) bool) []rune {
	sort.Slice(rs, func(i, j int) bool { return rs[i] < rs[j] })
	out := rs[:0]
	var last rune = -1
	for _, r := range rs {
		if r == last || r < 0 || r > c16Max || !keep(r) {
			continue
		}
		out = append(out, r)
		last = r
	}
	return out
}

func c16Spread(ends []rune, w rune) []rune {
	var out []rune
	for _, e := range ends {
		for d := -w; d <= w; d++ {
			out = append(out, e+d)
		}
	}
	return out
}

func c16ValidRune(r rune) bool { return r >= 0 && r <= c16Max && !(r >= 0xd800 && r <= 0xdfff) }

// ---- the check ---------------------------------------------------------------------------------

type c16Pending struct {
	caseIdx int
	what    string // mem | build | caseq
	want    string
	info    string
}

func c16Check(c *core.Ctx, cases []c16Case) []core.Outcome {
	outs := make([]core.Outcome, len(cases))
	var lines []string
	var pend []c16Pending
	for i := range cases {
		cs := &cases[i]
		o := &outs[i]
		skipped := false
		cls := cs.Class.String()
		o.Key = fmt.Sprintf("%d:%v:%s", cs.Opts, cs.NoBitmap, cls)
		o.Nontrivial = len(cs.Class.Items) > 1 || cs.Class.Sub != nil || cs.Class.Neg
		o.Buckets = append(o.Buckets, "opts-"+c16OptName(cs.Opts), fmt.Sprintf("sub-depth-%d", cs.Class.depth()))
		if cs.Class.Neg {
			o.Buckets = append(o.Buckets, "negated")
		}
		if cs.NoBitmap {
			o.Buckets = append(o.Buckets, "bitmap-off")
		}
		if cs.Full {
			o.Buckets = append(o.Buckets, "domain-full")
		}
		kinds := map[string]bool{}
		for _, it := range cs.Class.Items {
			kinds[it.K] = true
		}
		for k := range kinds {
			o.Buckets = append(o.Buckets, "item-"+k)
		}
		fail := func(kind, key, summary, exp, got string) {
			if skip := os.Getenv("C16_SKIP_KEYS"); skip != "" { // development aid: look past known families
				for _, pre := range strings.Split(skip, ",") {
					if strings.HasPrefix(key, pre) {
						o.Buckets = append(o.Buckets, "skipped-by-env")
						skipped = true
						return
					}
				}
			}
			if o.Fail == nil {
				o.Fail = &core.Failure{Kind: kind, Key: key, Summary: summary, Expected: exp, Got: got}
			}
		}
		sem := c16SemOf(cs.Opts)
		// compile the four uses of the class
		pats := []string{"^" + cls + "$", "x*" + cls, "^" + cls + "+$", cls}
		res := make([]*regexp2.Regexp, len(pats))
		var cerr error
		for k, p := range pats {
			if res[k], cerr = c16Compile(p, cs); cerr != nil {
				break
			}
		}
		if cerr != nil {
			fail("impl-violation", "compile:"+c16OptName(cs.Opts), "a class printed from the grammar does not compile: "+cerr.Error(), "compiles", cls)
			continue
		}
		code := regexp2.VerifCode(res[0])
		var set *syntax.CharSet
		var dump *c16Dump
		if len(code.Sets) >= 1 {
			set = code.Sets[0]
			dump = set.VerifDump()
			if dump.Anything {
				o.Buckets = append(o.Buckets, "anything")
			}
			if dump.Negate != cs.Class.Neg {
				o.Buckets = append(o.Buckets, "negated-normal-form")
			}
			if len(dump.Ranges) > 4 {
				o.Buckets = append(o.Buckets, "binary-search")
			}
		} else {
			o.Buckets = append(o.Buckets, "reduced-to-one-or-notone")
		}
		keyOf := func(path string, ch rune) string {
			k := "mem:"
			if sem.ci && dump != nil && dump.Negate && !cs.Class.Neg {
				k = "caseflip:"
			}
			if k != "mem:" {
				return k + "class-family" // one key per defect family: leaves room among the recorded failures
			}
			return k + c16OptName(cs.Opts) + ":" + path
		}
		// (a) model-free oracle over the small domain --------------------------------------------
		var ends []rune
		c16Endpoints(&cs.Class, &ends)
		if dump != nil {
			c16DumpEndpoints(dump, &ends)
		}
		dom := c16Spread(ends, 1)
		for r := rune(0); r < 0x250; r++ {
			dom = append(dom, r)
		}
		dom = append(dom, c16Interesting...)
		rng := rand.New(rand.NewSource(cs.Salt))
		for k := 0; k < 200; k++ {
			dom = append(dom, c16Rune(rng, false), rune(rng.Intn(c16Max+1)))
		}
		inDom := func(r rune) bool { return !sem.ci || c16InCIDomain(r) }
		dom = c16Uniq(dom, inDom)
		comp := sem.compile(&cs.Class)
		exp := make([]bool, len(dom))
		for k, ch := range dom {
			var orb []rune
			if sem.ci {
				orb = c16Orbit(ch)
			} else {
				orb = []rune{ch}
			}
			exp[k] = comp.mem(ch, orb)
		}
		check := func(path string, ch rune, want, got bool) bool {
			if want != got {
				fail("impl-violation", keyOf(path, ch), fmt.Sprintf("%s of %s (options %s, bitmap %v) on U+%04X: set algebra over the class's parts says %v, the code says %v", path, cls, c16OptName(cs.Opts), !cs.NoBitmap, ch, want, got), fmt.Sprint(want), fmt.Sprint(got))
				return false
			}
			return true
		}
		ok := true
		for k, ch := range dom {
			if !ok {
				break
			}
			if set != nil {
				ok = check("CharIn", ch, exp[k], set.CharIn(ch)) && check("charInSlow", ch, exp[k], set.VerifCharInSlow(ch))
				if !ok {
					break
				}
			}
			if !c16ValidRune(ch) {
				continue
			}
			one := []rune{ch}
			m0, _ := res[0].MatchRunes(one)
			m1, _ := res[1].MatchRunes(one)
			m2, _ := res[2].MatchRunes([]rune{ch, ch})
			ok = check("MatchRunes(^[…]$)", ch, exp[k], m0) && check("MatchRunes(x*[…])", ch, exp[k], m1) && check("MatchRunes(^[…]+$ twice)", ch, exp[k], m2)
		}
		if !ok || skipped {
			continue
		}
		// bulk: the loop and the scanning paths over all members / non-members of the domain
		bulk := func(domain []rune, expOf func(int) bool) {
			var members, others []rune
			for k, ch := range domain {
				if !c16ValidRune(ch) {
					continue
				}
				if expOf(k) {
					members = append(members, ch)
				} else {
					others = append(others, ch)
				}
			}
			if len(members) > 0 {
				if m, err := res[2].MatchRunes(members); err != nil || !m {
					fail("impl-violation", keyOf("bulk-loop", -1), fmt.Sprintf("^%s+$ (options %s) does not match the string of all %d expected members of the domain (err=%v)", cls, c16OptName(cs.Opts), len(members), err), "match", "no match")
				}
			}
			if len(others) > 0 {
				if m, err := res[3].FindRunesMatch(others); err != nil || m != nil {
					at := rune(-1)
					if m != nil {
						at = others[m.RuneIndex]
					}
					fail("impl-violation", keyOf("bulk-scan", at), fmt.Sprintf("%s (options %s) finds a match at U+%04X in the string of all %d expected non-members of the domain (err=%v)", cls, c16OptName(cs.Opts), at, len(others), err), "no match", "match")
				}
			}
		}
		bulk(dom, func(k int) bool { return exp[k] })
		if o.Fail != nil || skipped {
			continue
		}
		if cs.Full {
			all := make([]rune, 0, c16Max+1)
			allExp := make([]bool, 0, c16Max+1)
			for ch := rune(0); ch <= c16Max; ch++ {
				if !inDom(ch) {
					continue
				}
				var orb []rune
				if sem.ci {
					orb = c16Orbit(ch)
				} else {
					orb = []rune{ch}
				}
				e := comp.mem(ch, orb)
				if set != nil {
					if !check("CharIn", ch, e, set.CharIn(ch)) || !check("charInSlow", ch, e, set.VerifCharInSlow(ch)) {
						break
					}
				} else if c16ValidRune(ch) {
					if m0, _ := res[0].MatchRunes([]rune{ch}); !check("MatchRunes(^[…]$)", ch, e, m0) {
						break
					}
				}
				all = append(all, ch)
				allExp = append(allExp, e)
			}
			if o.Fail != nil || skipped {
				continue
			}
			bulk(all, func(k int) bool { return allExp[k] })
			if o.Fail != nil || skipped {
				continue
			}
		}
		// (b) correspondence lines -----------------------------------------------------------------
		// mem: sample = ASCII, endpoints ±2, interesting, 60 random
		if set != nil {
			ids := map[string]int{}
			sx := c16DumpSexp(dump, ids, true)
			sample := c16Spread(ends, 2)
			for r := rune(0); r < 0x80; r++ {
				sample = append(sample, r)
			}
			sample = append(sample, c16Interesting...)
			for k := 0; k < 60; k++ {
				sample = append(sample, c16Rune(rng, false))
			}
			sample = c16Uniq(sample, func(rune) bool { return true })
			rows, okc := c16OracleRows(ids, sample)
			if okc {
				var sb strings.Builder
				sb.WriteByte('b')
				for _, ch := range sample {
					if set.CharIn(ch) {
						sb.WriteByte('1')
					} else {
						sb.WriteByte('0')
					}
				}
				b := sb.String()
				lines = append(lines, core.S("c16", "mem", sx, core.SInts(sample), rows))
				pend = append(pend, c16Pending{i, "mem", core.S("ok", b, b, b), cls})
			} else {
				o.Buckets = append(o.Buckets, "category-unknown-to-the-harness")
			}
		}
		if !sem.ci {
			// build: every nesting level of the AST against the corresponding level of the parse
			d, err := c16ParseDump(cls, cs.Opts)
			if err != nil {
				fail("correspondence-break", "build:parse", "syntax.Parse of the lone class failed: "+err.Error(), "parses", cls)
				continue
			}
			for lvl := &cs.Class; lvl != nil && d != nil; lvl, d = lvl.Sub, d.Sub {
				ids := map[string]int{}
				var e2 []rune
				items := c16ItemsSexp(lvl, cs.Opts, ids, &e2)
				want := c16DumpFlat(d, ids)
				asked := c16Spread(e2, 2)
				asked = c16Uniq(asked, func(rune) bool { return true })
				rows, okc := c16OracleRows(ids, asked)
				if !okc {
					continue
				}
				lines = append(lines, core.S("c16", "build", core.SBool(lvl.Neg), core.SBool(lvl.Sub != nil), items, rows))
				pend = append(pend, c16Pending{i, "build", want, lvl.String()})
			}
		} else {
			// caseq: the item lists of every level go to Lean, which builds them as scanCharSet does
			// under IgnoreCase (items, addLowercase with lcTable regenerated from the source and
			// unicode.ToLower rows for single characters), copies the class and adds the case
			// equivalences; the result must be the IgnoreCase parse
			d1, err1 := c16ParseDump(cls, cs.Opts)
			if err1 != nil {
				fail("correspondence-break", "caseq:parse", "syntax.Parse of the lone class failed", "parses", cls)
				continue
			}
			ids := map[string]int{}
			var e2 []rune
			var lv []string
			for lvl := &cs.Class; lvl != nil; lvl = lvl.Sub {
				lv = append(lv, "("+core.SBool(lvl.Neg)+" "+c16ItemsSexp(lvl, cs.Opts, ids, &e2)+")")
			}
			size := 0
			for k := 0; k+1 < len(e2); k += 2 {
				size += int(e2[k+1]-e2[k]) + 1
			}
			if size <= 3000 {
				o.Buckets = append(o.Buckets, "caseq")
				want := c16DumpCls(d1, ids)
				var ob strings.Builder
				ob.WriteString("(orbit")
				asked := append([]rune{}, e2...)
				seen := map[rune]bool{}
				var lb strings.Builder
				lb.WriteString("(lower")
				orbitRow := func(ch rune) {
					if seen[ch] || ch < 0 || ch > c16Max {
						return
					}
					seen[ch] = true
					if orb := c16FoldOrbit(ch); len(orb) > 1 {
						fmt.Fprintf(&ob, " (%d", ch)
						for _, e := range orb[1:] {
							fmt.Fprintf(&ob, " %d", e)
							asked = append(asked, e)
						}
						ob.WriteByte(')')
					}
				}
				for ch := rune(0); ch < 0x80; ch++ {
					orbitRow(ch)
				}
				for k := 0; k+1 < len(e2); k += 2 {
					for ch := e2[k]; ch <= e2[k+1]; ch++ {
						orbitRow(ch)
						if l := unicode.ToLower(ch); l != ch {
							orbitRow(l)
							asked = append(asked, l)
							if e2[k] == e2[k+1] {
								fmt.Fprintf(&lb, " (%d %d)", ch, l)
							}
						}
					}
				}
				ob.WriteByte(')')
				lb.WriteByte(')')
				rows, okc := c16OracleRows(ids, c16Uniq(c16Spread(asked, 2), func(rune) bool { return true }))
				if okc {
					lines = append(lines, core.S("c16", "caseq", "(levels "+strings.Join(lv, " ")+")", ob.String(), lb.String(), rows))
					pend = append(pend, c16Pending{i, "caseq", want, cls})
				}
			}
		}
	}
	ans, err := c.RunDriver(lines)
	if err != nil {
		for i := range outs {
			if outs[i].Fail == nil {
				outs[i].Fail = core.DriverFailure(err)
				break
			}
		}
		return outs
	}
	for k, p := range pend {
		if outs[p.caseIdx].Fail != nil {
			continue
		}
		if ans[k] != p.want {
			what := map[string]string{
				"mem":   "Lean memAlg / charInSlow / charIn∘prepare on the dumped CharSet disagree with Go's CharIn on the sample",
				"build": "Lean `build` of the item list differs from the CharSet the parser produced",
				"caseq": "Lean buildItems/addLowercase/Copy/addCaseEquivalences differs from the IgnoreCase parse",
			}[p.what]
			outs[p.caseIdx].Fail = &core.Failure{Kind: "correspondence-break", Key: "model:" + p.what + ":" + c16OptName(cases[p.caseIdx].Opts), Summary: what + " — " + p.info, Expected: c16Clip(ans[k]), Got: c16Clip(p.want)}
		}
	}
	return outs
}

func c16Clip(s string) string {
	if len(s) > 1500 {
		return s[:1500] + "…"
	}
	return s
}

func c16Gen(c *core.Ctx) func(rng *rand.Rand, i int) c16Case {
	fullEvery := 400
	if c.Thorough() {
		fullEvery = 150
	}
	return func(rng *rand.Rand, i int) c16Case {
		opts := c16OptSets[rng.Intn(len(c16OptSets))]
		return c16Case{Class: c16GenClass(rng, opts, 0), Opts: opts, NoBitmap: rng.Intn(3) == 0, Full: i%fullEvery == fullEvery-1, Salt: rng.Int63()}
	}
}

func c16R(lo, hi rune) c16Item { return c16Item{K: "r", Lo: lo, Hi: hi} }

func init() {
	core.Register("C16", func(c *core.Ctx) {
		// C16_ONLY=Kq: run only the query-function leg (development aid)
		if os.Getenv("C16_ONLY") == "Kq" {
			c16QueryLeg(c, 800, 8000)
			return
		}
		defer c16AltLeg(c)
		defer c16QueryLeg(c, 800, 8000)
		corpus := []c16Case{
			// the "negated normal form taken too early" inputs (fixed by 493eae7)
			{Class: c16Class{Items: []c16Item{{K: "sh", Name: "d", Neg: true}, c16R('5', '5')}}, Opts: c16E, Salt: 1},
			{Class: c16Class{Items: []c16Item{{K: "px", Name: "lower", Neg: true}, c16R('a', 'a')}}, Opts: c16RE2, Salt: 2},
			{Class: c16Class{Items: []c16Item{c16R(0, 'a'), c16R('c', c16Max), c16R('b', 'b')}}, Salt: 3},
			{Class: c16Class{Items: []c16Item{c16R(0, 'a'), c16R('c', c16Max), {K: "sh", Name: "d"}}}, Salt: 4, Full: true},
			{Class: c16Class{Items: []c16Item{c16R(1, c16Max), c16R(0, 0)}}, Salt: 5},
			// negated category entries (fixed by 4abd18d) and folded subtraction (ec20cf4)
			{Class: c16Class{Items: []c16Item{{K: "sh", Name: "w", Neg: true}, {K: "sh", Name: "d"}}}, Salt: 6, Full: true},
			{Class: c16Class{Items: []c16Item{{K: "sh", Name: "d", Neg: true}, {K: "p", Name: "N"}}}, Salt: 7},
			{Class: c16Class{Items: []c16Item{c16R('a', 'z')}, Sub: &c16Class{Items: []c16Item{c16R('b', 'b')}}}, Opts: c16I, Salt: 8},
			// normal forms: everything but the last / first / one char; ranges ∪ categories covering all
			{Class: c16Class{Items: []c16Item{c16R(0, c16Max-1)}}, Salt: 9, Full: true},
			{Class: c16Class{Items: []c16Item{c16R(1, c16Max)}}, Salt: 10},
			{Class: c16Class{Items: []c16Item{c16R(0, '4'), c16R('6', c16Max), {K: "sh", Name: "d"}}}, Salt: 11},
			{Class: c16Class{Items: []c16Item{c16R(0, '4'), c16R('6', c16Max), {K: "sh", Name: "s"}}}, Salt: 12, NoBitmap: true},
			{Class: c16Class{Neg: true, Items: []c16Item{{K: "sh", Name: "s"}, {K: "sh", Name: "s", Neg: true}}}, Salt: 13},
			{Class: c16Class{Items: []c16Item{c16R('c', 'f'), c16R('a', 'd'), c16R('x', 'x'), c16R('g', 'g')}}, Salt: 14},
			{Class: c16Class{Items: []c16Item{{K: "px", Name: "upper", Neg: true}}}, Opts: c16RE2, Salt: 15},
			{Class: c16Class{Items: []c16Item{{K: "px", Name: "space"}}}, Opts: c16RE2, Salt: 16},
			// POSIX names are the ASCII sets of RE2 (503cb91, 88438d2)
			{Class: c16Class{Items: []c16Item{{K: "px", Name: "space", Neg: true}}}, Opts: c16RE2, Salt: 17},
			{Class: c16Class{Items: []c16Item{{K: "px", Name: "digit"}}}, Opts: c16RE2, Salt: 18},
			{Class: c16Class{Items: []c16Item{{K: "px", Name: "digit", Neg: true}, c16R('a', 'a')}}, Opts: c16RE2 | c16I, Salt: 19},
			// IgnoreCase and the negated normal form (d62d6ac)
			{Class: c16Class{Items: []c16Item{{K: "sh", Name: "w", Neg: true}, c16R('b', 'z'), c16R('0', '9'), c16R('_', '_'), c16R('A', 'Z')}}, Opts: c16E | c16I, Salt: 20},
			{Class: c16Class{Items: []c16Item{{K: "px", Name: "alpha", Neg: true}, {K: "px", Name: "lower"}, c16R('@', '@')}}, Opts: c16RE2 | c16I, Salt: 21},
			{Class: c16Class{Items: []c16Item{{K: "px", Name: "upper", Neg: true}}}, Opts: c16RE2 | c16I, Salt: 22, Full: true},
			{Class: c16Class{Items: []c16Item{{K: "px", Name: "upper", Neg: true}, {K: "p", Name: "N"}}}, Opts: c16RE2 | c16I, Salt: 23},
			{Class: c16Class{Items: []c16Item{{K: "sh", Name: "d"}, c16R('z', '}'), c16R('J', 'q'), {K: "sh", Name: "w", Neg: true}}}, Opts: c16E | c16I, NoBitmap: true, Salt: 24},
		}
		core.RunLeg(c, core.Leg[c16Case]{
			Name: "K", Kind: "correspondence+oracle",
			Rule:   "random class expressions: 1-4 (1 in 6: 5-12) items among single runes, ranges, \\d\\w\\s\\D\\W\\S, \\p{..}/\\P{..} (44 names; not under ECMAScript), POSIX names (RE2 only), negated 1 in 4, nested subtraction 1 in 3 per level (depth ≤ 3), 1 in 12 an 'everything but a gap' pair of ranges, 1 in 10 a category together with its negation (the base collapses to 'anything') usually with a subtraction; options drawn from {default×2, IgnoreCase, ECMAScript, ECMAScript+IgnoreCase, RE2, RE2+IgnoreCase} (IgnoreCase: ASCII range endpoints; rune domain = ASCII ∪ plain upper/lower pairs ∪ caseless runes), ASCII bitmap disabled 1 in 3. Domain per class: U+0000-024F, every endpoint ±1 (AST and compiled set), 130 special runes, 400 random; every 400th (thorough: 150th) class all 1 114 112 code points. Non-trivial = more than one item, negated, or has a subtraction; distinct by (options, bitmap, class text). Oracle: CharIn, charInSlow, MatchRunes of ^[…]$, x*[…], ^[…]+$ (doubled rune) per rune, and bulk ^[…]+$ over all members / unanchored […] over all non-members, against set algebra recomputed from the AST (package unicode tables, stdlib regexp for POSIX names and RE2 shorthands; case equivalence = SimpleFold orbit for code-point items). Correspondence: Lean memAlg/charInSlow/charIn∘prepare on the dumped CharSet vs Go CharIn (sample: ASCII, endpoints ±2, special, 60 random); Lean build(items) vs parsed structure per nesting level (no IgnoreCase); Lean buildItems→addLowercase(lcTable from the source, ToLower rows)→Copy→addCaseEquivalences vs the IgnoreCase parse (classes whose ranges cover at most 3000 runes)",
			Corpus: corpus, N: c.N(1500, 30000), Gen: c16Gen(c), Check: c16Check, Batch: 250,
		})
	})
}
