package legs

import (
	"fmt"
	"os"
	"time"

	"rvharness/internal/core"

	regexp2 "github.com/dlclark/regexp2/v2"
	"github.com/dlclark/regexp2/v2/syntax"
)

// C05 — pattern rewrites preserve meaning.
// Oracle R: the pattern compiled normally against the same pattern compiled with the rewrites of
// tree.go switched off (verif hook syntax.VerifDisableRewrites), both run through the naive scan so
// that search acceleration (C03) does not enter the comparison.

func compilePair(cs *engCase) (on, off *regexp2.Regexp, err error) {
	on, err = safeCompile(cs.Pattern, cs.compileOpts()...)
	if err != nil {
		return nil, nil, err
	}
	syntax.VerifDisableRewrites = true
	off, err = safeCompile(cs.Pattern, cs.compileOpts()...)
	syntax.VerifDisableRewrites = false
	if err != nil {
		return nil, nil, err
	}
	on.MatchTimeout, off.MatchTimeout = 2*time.Second, 2*time.Second
	return on, off, nil
}

type c05Pair struct {
	on, off *regexp2.Regexp
	err     error
	differ  bool // the two trees differ (a rewrite applied)
}

func c05Check(c *core.Ctx, cases []engCase) []core.Outcome {
	outs := make([]core.Outcome, len(cases))
	cache := map[string]*c05Pair{}
	for i := range cases {
		cs := &cases[i]
		o := &outs[i]
		key := fmt.Sprintf("%d|%v|%s", cs.Opts, cs.CodeGen, cs.Pattern)
		o.Key = key + "|" + cs.str() + fmt.Sprint(cs.Start)
		pr := cache[key]
		if pr == nil {
			pr = &c05Pair{}
			pr.on, pr.off, pr.err = compilePair(cs)
			if pr.err == nil {
				pr.differ = regexp2.VerifCode(pr.on).Dump() != regexp2.VerifCode(pr.off).Dump()
			}
			cache[key] = pr
		}
		if pr.err != nil {
			o.Buckets = append(o.Buckets, "compile-error")
			continue
		}
		if pr.differ {
			o.Buckets = append(o.Buckets, "rewritten")
		} else {
			o.Buckets = append(o.Buckets, "unchanged-by-rewrites")
		}
		o.Nontrivial = pr.differ && len(cs.Text) > 0
		text := cs.Text
		starts := []int{cs.Start}
		if len(text) <= 10 {
			starts = starts[:0]
			for s := 0; s <= len(text); s++ {
				starts = append(starts, s)
			}
		}
		for _, s := range starts {
			a, e1 := regexp2.VerifNaiveScan(pr.off, text, s, s, -1, false)
			b, e2 := regexp2.VerifNaiveScan(pr.on, text, s, s, -1, false)
			if e1 != nil || e2 != nil {
				o.Buckets = append(o.Buckets, "match-error")
				break
			}
			if x, y := renderFull(a), renderFull(b); x != y {
				o.Fail = &core.Failure{Kind: "impl-violation", Key: "C05:rewrite-changes-result",
					Summary:  fmt.Sprintf("result differs with the rewrites on vs off: pattern %q opts %d input %q start %d", cs.Pattern, cs.Opts, cs.str(), s),
					Expected: x, Got: y}
				break
			}
			// the accelerated find of the normal compilation as well
			m, e3 := pr.on.FindRunesMatchStartingAt(text, s)
			if e3 == nil {
				if x, y := renderFull(a), renderFull(m); x != y {
					o.Fail = &core.Failure{Kind: "impl-violation", Key: "C05:find-vs-unrewritten",
						Summary:  fmt.Sprintf("find differs from the un-rewritten pattern's naive scan: pattern %q opts %d input %q start %d", cs.Pattern, cs.Opts, cs.str(), s),
						Expected: x, Got: y}
					break
				}
			}
		}
	}
	return outs
}

// the carried finding KF2: fixed probes, reported under their own key
var c05Probes = []engCase{
	{Pattern: `-+\B`, Text: []rune("--b"), Source: "probe"},
	{Pattern: `\W+\B`, Text: []rune("--b"), Source: "probe"},
	{Pattern: `\D+\B`, Text: []rune("--1"), Source: "probe"},
}

func c05ProbeCheck(c *core.Ctx, cases []engCase) []core.Outcome {
	outs := c05Check(c, cases)
	for i := range outs {
		if outs[i].Fail != nil {
			outs[i].Fail.Key = "probe:nonword-loop-before-nonboundary"
		}
	}
	return outs
}

func init() {
	core.Register("C05", func(c *core.Ctx) {
		// C05_ONLY=Rw: run only the rewrite-decision leg (development aid)
		if os.Getenv("C05_ONLY") == "Rw" {
			c05RegisterRw(c)
			c05RegisterRs(c)
			plLeg(c, 250, 6000) // leg Pl: the whole reducer as one Lean function (pipeline.go)
			return
		}
		g := &engGen{allowRTL: true, perPat: 8, maxLen: 10, biasRewrite: true}
		core.RunLeg(c, core.Leg[engCase]{
			Name: "R", Kind: "oracle(rewrites on/off)",
			Rule: "patterns as C03 leg N (random full-syntax ASTs incl. loop-followed-by-X, shared-prefix alternations, nested atomic groups, lookbehind, conditionals; harvested literals); each pattern is compiled twice, normally and with the verif switch that disables auto-atomic loops, ending-backtracking removal, bump-along markers, alternation prefix extraction and atomic-alternation reordering/trimming; the naive scan of both compilations (span + all captures) must agree at every start offset of inputs ≤ 10 runes (else at the drawn offset), and the normal accelerated find must agree with them. non-trivial = the two programs differ (a rewrite applied) and the input is non-empty",
			N:    c.N(8000, 400000), Corpus: engCorpus, Gen: g.next, Check: c05Check, Batch: 4000,
		})
		core.RunLeg(c, core.Leg[engCase]{
			Name: "KF2", Kind: "oracle(probe)",
			Rule:   "fixed probes for the carried finding KF2 (non-word loop made atomic before \\B)",
			Corpus: c05Probes, N: 0, Gen: nil, Check: c05ProbeCheck,
		})
		c05RegisterCert(c)
		c05RegisterRw(c)
		c05RegisterRs(c)
		plLeg(c, 250, 6000) // leg Pl: the whole reducer as one Lean function (pipeline.go)
		// the query functions canBeMadeAtomic relies on (MayOverlap, Equals, CharIn side conditions): leg Kq of C16 at a small size
		c16QueryLeg(c, 150, 3000)
	})
}
