package legs

import (
	"fmt"
	"math/rand"
	"reflect"
	"sort"
	"strings"

	"rvharness/internal/core"
	"rvharness/internal/gen"

	regexp2 "github.com/dlclark/regexp2/v2"
	"github.com/dlclark/regexp2/v2/syntax"
)

// Leg Wr — the bytecode writer (syntax/writer.go) against its Lean model (Model/Writer.lean).
//
// For every pattern: tree := syntax.Parse(...); the root and what codeFromTree reads of the tree
// (Captop, Capnumlist, Caps, the RightToLeft option) are serialised BEFORE syntax.Write runs (Write
// stores slot numbers into tree.Caps); Lean runs `Writer.write` on that; the answer must equal
// syntax.Write(tree) exactly: Codes, Strings, Sets (by Hash() bytes, same order), TrackCount,
// Capsize, Caps, RightToLeft, CaptureSlotInUse, QuickCodes.  The driver also evaluates the tree
// well-formedness `treeWf` (hypothesis of Props.C01.emit_wf) and `wfProg` on both programs.
//
// Model-free oracles on the Go program alone (impl-violation): the table entry an instruction names is
// structurally the string / set of the tree node it was emitted for; every jump operand is an
// instruction boundary by syntax.opcodeSize; TrackCount counts the backtracking opcodes.

type wrCase struct {
	Pattern string `json:"pattern"`
	Opts    int32  `json:"opts"`
	Order   bool   `json:"maintain_capture_order,omitempty"`
	Source  string `json:"source"`
}

var wrNodeNames = map[syntax.NodeType]string{
	syntax.NtOneloop: "Oneloop", syntax.NtNotoneloop: "Notoneloop", syntax.NtSetloop: "Setloop", syntax.NtOnelazy: "Onelazy",
	syntax.NtNotonelazy: "Notonelazy", syntax.NtSetlazy: "Setlazy", syntax.NtOne: "One", syntax.NtNotone: "Notone", syntax.NtSet: "Set",
	syntax.NtMulti: "Multi", syntax.NtRef: "Ref", syntax.NtBol: "Bol", syntax.NtEol: "Eol", syntax.NtBoundary: "Boundary",
	syntax.NtNonboundary: "Nonboundary", syntax.NtBeginning: "Beginning", syntax.NtStart: "Start", syntax.NtEndZ: "EndZ", syntax.NtEnd: "End",
	syntax.NtNothing: "Nothing", syntax.NtEmpty: "Empty", syntax.NtAlternate: "Alternate", syntax.NtConcatenate: "Concatenate",
	syntax.NtLoop: "Loop", syntax.NtLazyloop: "Lazyloop", syntax.NtCapture: "Capture", syntax.NtGroup: "Group", syntax.NtPosLook: "PosLook",
	syntax.NtNegLook: "NegLook", syntax.NtAtomic: "Atomic", syntax.NtBackRefCond: "BackRefCond", syntax.NtExprCond: "ExprCond",
	syntax.NtECMABoundary: "ECMABoundary", syntax.NtNonECMABoundary: "NonECMABoundary", syntax.NtOneloopatomic: "Oneloopatomic",
	syntax.NtNotoneloopatomic: "Notoneloopatomic", syntax.NtSetloopatomic: "Setloopatomic", syntax.NtUpdateBumpalong: "UpdateBumpalong",
}

// wrSet is the payload a set travels as: its Hash() bytes followed by the raw range endpoints of the set and
// its subtracted sets (the hash writes ranges as UTF-8, which is not injective on surrogate code points; the
// writer's set table distinguishes such sets since /repo 'fix: the set and string tables of the writer …').
func wrSet(s *syntax.CharSet) string {
	b := s.Hash()
	xs := make([]int, 0, len(b)+8)
	for _, c := range b {
		xs = append(xs, int(c))
	}
	for d := s.VerifDump(); d != nil; d = d.Sub {
		xs = append(xs, 1<<21)
		for _, r := range d.Ranges {
			xs = append(xs, int(r[0]), int(r[1]))
		}
	}
	return core.SInts(xs)
}

func wrBytes(b []byte) string {
	xs := make([]int, len(b))
	for i, c := range b {
		xs[i] = int(c)
	}
	return core.SInts(xs)
}

// wrNode serialises a RegexNode for the Lean driver (see Driver/Writer.lean goNode?) and records the
// node types it meets. A node whose type / child count the writer's walk would not treat as the model's
// constructor does is sent as (other t).
func wrNode(n *syntax.RegexNode, seen map[string]bool) string {
	rtl, ci := core.SBool(n.Options&syntax.RightToLeft != 0), core.SBool(n.Options&syntax.IgnoreCase != 0)
	if nm, ok := wrNodeNames[n.T]; ok {
		seen[nm] = true
		if n.Options&syntax.RightToLeft != 0 {
			seen[nm+"-rtl"] = true
		}
	}
	kids := len(n.Children)
	sub := func(i int) string { return wrNode(n.Children[i], seen) }
	other := fmt.Sprintf("(other %d)", n.T)
	if kids == 0 {
		switch n.T {
		case syntax.NtEmpty:
			return "(empty)"
		case syntax.NtNothing, syntax.NtBol, syntax.NtEol, syntax.NtBoundary, syntax.NtNonboundary, syntax.NtECMABoundary, syntax.NtNonECMABoundary,
			syntax.NtBeginning, syntax.NtStart, syntax.NtEndZ, syntax.NtEnd, syntax.NtUpdateBumpalong:
			return fmt.Sprintf("(bare %d)", n.T)
		case syntax.NtOne, syntax.NtNotone:
			return fmt.Sprintf("(char %d %s %s %d)", n.T, rtl, ci, n.Ch)
		case syntax.NtSet:
			return fmt.Sprintf("(set %s %s %s)", rtl, ci, wrSet(n.Set))
		case syntax.NtMulti:
			return fmt.Sprintf("(multi %s %s %s)", rtl, ci, core.SInts(n.Str))
		case syntax.NtRef:
			return fmt.Sprintf("(ref %s %s %d)", rtl, ci, n.M)
		case syntax.NtOneloop, syntax.NtNotoneloop, syntax.NtOnelazy, syntax.NtNotonelazy, syntax.NtOneloopatomic, syntax.NtNotoneloopatomic:
			return fmt.Sprintf("(charloop %d %s %s %d %d %d)", n.T, rtl, ci, n.Ch, n.M, n.N)
		case syntax.NtSetloop, syntax.NtSetlazy, syntax.NtSetloopatomic:
			return fmt.Sprintf("(setloop %d %s %s %s %d %d)", n.T, rtl, ci, wrSet(n.Set), n.M, n.N)
		case syntax.NtConcatenate:
			return "(concat)"
		case syntax.NtAlternate:
			return "(alt)"
		}
		return other
	}
	switch n.T {
	case syntax.NtConcatenate, syntax.NtAlternate:
		parts := make([]string, kids)
		for i := range parts {
			parts[i] = sub(i)
		}
		tag := "concat"
		if n.T == syntax.NtAlternate {
			tag = "alt"
		}
		return "(" + tag + " " + strings.Join(parts, " ") + ")"
	case syntax.NtLoop, syntax.NtLazyloop:
		if kids == 1 {
			return fmt.Sprintf("(loop %s %d %d %s)", core.SBool(n.T == syntax.NtLazyloop), n.M, n.N, sub(0))
		}
	case syntax.NtCapture:
		if kids == 1 {
			return fmt.Sprintf("(capture %d %d %s)", n.M, n.N, sub(0))
		}
	case syntax.NtGroup, syntax.NtPosLook, syntax.NtNegLook, syntax.NtAtomic:
		if kids == 1 {
			tag := map[syntax.NodeType]string{syntax.NtGroup: "group", syntax.NtPosLook: "poslook", syntax.NtNegLook: "neglook", syntax.NtAtomic: "atomic"}[n.T]
			return "(" + tag + " " + sub(0) + ")"
		}
	case syntax.NtBackRefCond:
		if kids == 1 {
			return fmt.Sprintf("(backrefcond %d %s)", n.M, sub(0))
		}
		if kids == 2 {
			return fmt.Sprintf("(backrefcond %d %s %s)", n.M, sub(0), sub(1))
		}
	case syntax.NtExprCond:
		if kids == 2 {
			return fmt.Sprintf("(exprcond %s %s)", sub(0), sub(1))
		}
		if kids == 3 {
			return fmt.Sprintf("(exprcond %s %s %s)", sub(0), sub(1), sub(2))
		}
	}
	return other
}

func wrPairs(m map[int]int) string {
	ks := make([]int, 0, len(m))
	for k := range m {
		ks = append(ks, k)
	}
	sort.Ints(ks)
	parts := make([]string, len(ks))
	for i, k := range ks {
		parts[i] = fmt.Sprintf("(%d %d)", k, m[k])
	}
	return "(" + strings.Join(parts, " ") + ")"
}

func wrInfo(t *syntax.RegexTree) string {
	cl := "nil"
	if t.Capnumlist != nil {
		cl = core.SInts(t.Capnumlist)
	}
	return fmt.Sprintf("(info %d %s %s %s)", t.Captop, cl, wrPairs(t.Caps), core.SBool(t.Options&syntax.RightToLeft != 0))
}

// wrParts renders syntax.Code in the component order of the driver's answer.
func wrParts(code *syntax.Code) []string {
	strs := make([]string, len(code.Strings))
	for i, s := range code.Strings {
		strs[i] = core.SInts(s)
	}
	sets := make([]string, len(code.Sets))
	for i, s := range code.Sets {
		sets[i] = wrSet(s)
	}
	inuse := make([]string, len(code.CaptureSlotInUse))
	for i, b := range code.CaptureSlotInUse {
		inuse[i] = core.SBool(b)
	}
	quick := "(noquick)"
	if code.QuickCodes != nil {
		quick = "(quick " + strings.Trim(core.SInts(code.QuickCodes), "()") + ")"
	}
	caps := "()"
	if code.Caps != nil {
		caps = wrPairs(code.Caps)
	}
	return []string{core.SInts(code.Codes), "(" + strings.Join(strs, " ") + ")", "(" + strings.Join(sets, " ") + ")",
		fmt.Sprint(code.TrackCount), fmt.Sprint(code.Capsize), caps, core.SBool(code.RightToLeft),
		"(" + strings.Join(inuse, " ") + ")", quick}
}

var wrPartNames = []string{"codes", "strings", "sets", "trackcount", "capsize", "caps", "rtl", "slot-in-use", "quick"}

// wrSplit splits "(tag a (b c) d)" into its top-level items after the tag.
func wrSplit(s string) (tag string, items []string) {
	s = strings.TrimSpace(s)
	if len(s) < 2 || s[0] != '(' || s[len(s)-1] != ')' {
		return s, nil
	}
	s = s[1 : len(s)-1]
	depth, start := 0, -1
	flush := func(end int) {
		if start >= 0 {
			items = append(items, s[start:end])
			start = -1
		}
	}
	for i := 0; i < len(s); i++ {
		switch s[i] {
		case '(':
			if depth == 0 {
				flush(i)
				start = i
			}
			depth++
		case ')':
			depth--
			if depth == 0 {
				flush(i + 1)
			}
		case ' ':
			if depth == 0 {
				flush(i)
			}
		default:
			if depth == 0 && start < 0 {
				start = i
			}
		}
	}
	flush(len(s))
	if len(items) == 0 {
		return "", nil
	}
	return items[0], items[1:]
}

func wrInts(s string) []int {
	var out []int
	for _, f := range strings.Fields(strings.Trim(s, "()")) {
		var v int
		if _, err := fmt.Sscan(f, &v); err == nil {
			out = append(out, v)
		}
	}
	return out
}

// wrDump: structural copy of a set without the lazily built bitmap flag.
func wrDump(s *syntax.CharSet) *syntax.VerifCharSet {
	d := s.VerifDump()
	for p := d; p != nil; p = p.Sub {
		p.HasBitmap = false
	}
	return d
}

// wrTablePayloads lists, in the writer's emission order, the string / set every Multi / Set* instruction
// is emitted for.
func wrTablePayloads(n *syntax.RegexNode, strs *[][]rune, sets *[]*syntax.CharSet) {
	switch n.T {
	case syntax.NtMulti:
		*strs = append(*strs, n.Str)
	case syntax.NtSet:
		*sets = append(*sets, n.Set)
	case syntax.NtSetloop, syntax.NtSetlazy, syntax.NtSetloopatomic:
		if n.M > 0 {
			*sets = append(*sets, n.Set)
		}
		if n.N > n.M {
			*sets = append(*sets, n.Set)
		}
	}
	for _, c := range n.Children {
		wrTablePayloads(c, strs, sets)
	}
}

// wrOracle: properties of the emitted program that need no model.
func wrOracle(tree *syntax.RegexTree, code *syntax.Code, which string, codes []int) *core.Failure {
	fail := func(key, sum, exp, got string) *core.Failure {
		return &core.Failure{Kind: "impl-violation", Key: key, Summary: which + " program: " + sum, Expected: exp, Got: got}
	}
	var wantStrs [][]rune
	var wantSets []*syntax.CharSet
	wrTablePayloads(tree.Root, &wantStrs, &wantSets)
	bounds := map[int]bool{}
	type jump struct{ pc, target int }
	var jumps []jump
	var strOps, setOps []int
	nbt := 0
	for pos := 0; pos < len(codes); {
		op := syntax.InstOp(codes[pos]) & syntax.Mask
		if codes[pos] < 0 || op > syntax.UpdateBumpalong || op == syntax.Prune {
			return fail("Wr:unknown-opcode", fmt.Sprintf("word %d at %d is not an opcode", codes[pos], pos), "an opcode", fmt.Sprint(codes))
		}
		sz := syntax.VerifOpcodeSize(op)
		if pos+sz > len(codes) {
			return fail("Wr:truncated", fmt.Sprintf("the instruction at %d runs off the end", pos), "", fmt.Sprint(codes))
		}
		bounds[pos] = true
		if syntax.VerifOpcodeBacktracks(op) {
			nbt++
		}
		switch op {
		case syntax.Lazybranch, syntax.Branchmark, syntax.Lazybranchmark, syntax.Branchcount, syntax.Lazybranchcount, syntax.Goto:
			jumps = append(jumps, jump{pos, codes[pos+1]})
		case syntax.Multi:
			strOps = append(strOps, codes[pos+1])
		case syntax.Set, syntax.Setrep, syntax.Setloop, syntax.Setlazy, syntax.Setloopatomic:
			setOps = append(setOps, codes[pos+1])
		}
		pos += sz
	}
	for _, j := range jumps {
		if !bounds[j.target] {
			return fail("Wr:jump-off-boundary", fmt.Sprintf("the jump at %d goes to %d, which is not the first word of an instruction", j.pc, j.target), "an instruction boundary", fmt.Sprint(codes))
		}
	}
	if len(codes) == 0 || syntax.InstOp(codes[0])&syntax.Mask != syntax.Lazybranch || syntax.InstOp(codes[len(codes)-1]) != syntax.Stop {
		return fail("Wr:frame", "the program does not start with Lazybranch and end with Stop", "", fmt.Sprint(codes))
	}
	if which == "main" && nbt != code.TrackCount {
		return fail("Wr:trackcount", "TrackCount is not the number of backtracking instructions", fmt.Sprint(nbt), fmt.Sprint(code.TrackCount))
	}
	if len(strOps) == len(wantStrs) {
		for i, idx := range strOps {
			if idx < 0 || idx >= len(code.Strings) || !reflect.DeepEqual([]rune(code.Strings[idx]), []rune(wantStrs[i])) {
				return fail("Wr:string-table-entry", fmt.Sprintf("Multi instruction #%d names string %d, which is not the node's string", i, idx), fmt.Sprint(wantStrs[i]), fmt.Sprint(code.Strings))
			}
		}
	}
	if len(setOps) == len(wantSets) {
		for i, idx := range setOps {
			if idx < 0 || idx >= len(code.Sets) || !reflect.DeepEqual(wrDump(code.Sets[idx]), wrDump(wantSets[i])) {
				got := "out of range"
				if idx >= 0 && idx < len(code.Sets) {
					got = code.Sets[idx].String()
				}
				return fail("Wr:set-table-entry", fmt.Sprintf("set instruction #%d names set %d, which is not the node's set", i, idx), wantSets[i].String(), got)
			}
		}
	}
	return nil
}

func wrParse(cs *wrCase) (t *syntax.RegexTree, err error) {
	defer func() {
		if r := recover(); r != nil {
			t, err = nil, panicError{r}
		}
	}()
	return syntax.Parse(cs.Pattern, syntax.ParseOptions{RegexOptions: syntax.RegexOptions(cs.Opts), MaintainCaptureOrder: cs.Order})
}

func wrOptsBucket(o int32) string {
	names := []struct {
		b regexp2.RegexOptions
		s string
	}{{regexp2.IgnoreCase, "i"}, {regexp2.Multiline, "m"}, {regexp2.ExplicitCapture, "n"}, {regexp2.Singleline, "s"},
		{regexp2.IgnorePatternWhitespace, "x"}, {regexp2.RightToLeft, "r"}, {regexp2.ECMAScript, "E"}, {regexp2.RE2, "R"}, {regexp2.Unicode, "U"}}
	s := ""
	for _, n := range names {
		if regexp2.RegexOptions(o)&n.b != 0 {
			s += n.s
		}
	}
	if s == "" {
		s = "-"
	}
	return "opts=" + s
}

func wrCheck(c *core.Ctx, cases []wrCase) []core.Outcome {
	outs := make([]core.Outcome, len(cases))
	type pending struct {
		ci         int
		goErr      bool
		parts      []string
		info, node string
	}
	var pend []pending
	var lines []string
	for ci := range cases {
		cs := &cases[ci]
		o := &outs[ci]
		o.Key = fmt.Sprintf("%d|%v|%s", cs.Opts, cs.Order, cs.Pattern)
		o.Buckets = append(o.Buckets, "source="+cs.Source)
		tree, err := wrParse(cs)
		if err != nil || tree == nil {
			o.Buckets = append(o.Buckets, "parse-error")
			continue
		}
		seen := map[string]bool{}
		info, node := wrInfo(tree), wrNode(tree.Root, seen)
		for nm := range seen {
			o.Buckets = append(o.Buckets, "nt="+nm)
		}
		o.Buckets = append(o.Buckets, wrOptsBucket(cs.Opts))
		o.Nontrivial = len(seen) > 2
		code, werr := syntax.Write(tree)
		p := pending{ci: ci, info: info, node: node}
		if werr != nil {
			p.goErr = true
			o.Buckets = append(o.Buckets, "write-error")
		} else {
			p.parts = wrParts(code)
			if code.Caps != nil {
				o.Buckets = append(o.Buckets, "caps=sparse")
			}
			if code.QuickCodes != nil {
				o.Buckets = append(o.Buckets, "quick-program")
			}
			if f := wrOracle(tree, code, "main", code.Codes); f != nil {
				o.Fail = f
			} else if code.QuickCodes != nil {
				o.Fail = wrOracle(tree, code, "bool-only", code.QuickCodes)
			}
		}
		pend = append(pend, p)
		lines = append(lines, core.S("c01", "writer", "emit", info, node))
	}
	res, err := c.RunDriver(lines)
	if err != nil {
		if len(outs) > 0 && outs[0].Fail == nil {
			outs[0].Fail = core.DriverFailure(err)
		}
		return outs
	}
	locate := func(p pending, off int, quick bool) string {
		r, err := c.RunDriver([]string{core.S("c01", "writer", "locate", p.info, p.node, fmt.Sprint(off), core.SBool(quick))})
		if err != nil || len(r) != 1 || !strings.HasPrefix(r[0], "(at ") {
			return "unknown"
		}
		return strings.TrimSuffix(strings.TrimPrefix(r[0], "(at "), ")")
	}
	for pi, p := range pend {
		o := &outs[p.ci]
		if o.Fail != nil {
			continue
		}
		cs := &cases[p.ci]
		bad := func(key, sum, exp, got string) {
			if o.Fail == nil {
				o.Fail = &core.Failure{Kind: "correspondence-break", Key: key,
					Summary: fmt.Sprintf("%s: pattern %q opts %d", sum, cs.Pattern, cs.Opts), Expected: exp, Got: got}
			}
		}
		tag, items := wrSplit(res[pi])
		if p.goErr {
			if tag != "err" {
				bad("Wr:error", "syntax.Write reports an error, the model emits a program", "(err)", res[pi])
			}
			continue
		}
		if tag != "ok" || len(items) != len(wrPartNames)+1 {
			bad("Wr:answer", "the model does not emit a program for this tree (unmodelled node shape or writer error)", "(ok …)", res[pi]+" for "+p.node)
			continue
		}
		for k, name := range wrPartNames {
			if items[k] == p.parts[k] {
				continue
			}
			key := "Wr:" + name
			if name == "codes" || name == "quick" {
				a, b := wrInts(items[k]), wrInts(p.parts[k])
				off := 0
				for off < len(a) && off < len(b) && a[off] == b[off] {
					off++
				}
				if off == 1 {
					// the operand of the leading Lazybranch is the position of Stop: it differs whenever the sizes
					// differ; classify by the first difference inside the root's fragment when there is one
					for k := 2; k < len(a) && k < len(b); k++ {
						if a[k] != b[k] {
							off = k
							break
						}
					}
				}
				key = fmt.Sprintf("Wr:%s:%s", name, locate(p, off, name == "quick"))
				bad(key, fmt.Sprintf("the %s of the model and of syntax.Write differ first at code offset %d", name, off), items[k], p.parts[k])
			} else {
				bad(key, "the model and syntax.Write differ in "+name, items[k], p.parts[k])
			}
			break
		}
		if o.Fail == nil {
			_, wf := wrSplit(items[len(wrPartNames)])
			if len(wf) != 3 || wf[0] != "1" {
				bad("Wr:tree-not-wellformed", "the parsed tree violates the well-formedness the parser is assumed to guarantee (treeWf: node types and child counts, group numbers mapping into the capture array, 0 <= M <= N <= MaxInt32)", "(wf 1 1 1)", items[len(wrPartNames)]+" for "+p.node)
			} else if wf[1] != "1" || wf[2] != "1" {
				bad("Wr:program-not-wellformed", "the emitted program violates wfProg (main, bool-only)", "(wf 1 1 1)", items[len(wrPartNames)])
			}
		}
	}
	return outs
}

// ---------------------------------------------------------------------------------------------
// generators

var wrOptSets = []regexp2.RegexOptions{0, 0, 0, regexp2.IgnoreCase, regexp2.RightToLeft, regexp2.RightToLeft | regexp2.IgnoreCase,
	regexp2.ECMAScript, regexp2.ECMAScript | regexp2.IgnoreCase, regexp2.RE2, regexp2.RE2 | regexp2.IgnoreCase, regexp2.ExplicitCapture,
	regexp2.Multiline | regexp2.Singleline, regexp2.IgnorePatternWhitespace, regexp2.Unicode, regexp2.RightToLeft | regexp2.Multiline}

var wrAtoms = []string{"a", "b", "[ab]", "[^ab]", ".", `\w`, `\d`, "(?:ab)", "(a)", "(?<n>a)", "(?:a|b)", "(?:a|bc|)", "(?:ab|ac)", "(?=a)", "(?!b)", "(?<=a)",
	"(?<!b)", "(?>a+)", "(?>a|ab)", "abc", "[a-c]x", `\b`, "^", "$", `\G`, `\z`, `\Z`, `\A`, `\B`, "(a)(b)", "(?<x>a)(?<y>b)", "(a(b(c)))", "(?:(a)|b)", "(?i:ab)", "é", "(?i:k)"}

var wrQuants = []string{"{0,0}", "{0}", "{1}", "{1,1}", "{2}", "{3}", "{2,}", "{0,}", "{1,}", "{0,1}", "{0,2}", "{1,3}", "{2,5}", "*", "+", "?", "{0,2147483647}", "{1,2147483647}", "{2,2147483647}"}

var wrSpecials = []string{
	`(?<5>a)(?<2>b)(c)\5\2`, `(?<x>a)(?<2>b)\k<x>\2`, `(?<7>a)\7`, `(a)(?<9>b)(c)\3`, `(?<o>\()(?<c-o>\))`, `(?<o>a)+(?<-o>b)+`, `(?<o>a)(?<p>b)(?<q-o>c)\k<q>`,
	`(a)?(?(1)b|c)`, `(a)?(?(1)b)`, `(?<n>a)?(?(n)b|c)`, `(?(?=x)a|b)`, `(?(?=x)a)`, `(?(x)a|b)`, `(?(?<=x)a|b)+`, `(a)\1`, `(?<n>a)\k<n>`, `(?i)(a)\1`,
	`(?<=ab)c`, `(?<!a.)c`, `(?<=(a)+)b`, `(?=(a))\1`, `a*?b+?c??`, `[ab]*?[cd]+?`, `.*?x`, `(?>[ab]*)c`, `(?>a*?)b`, `a{2,}?`, `(?:a|b){2,}?`, `(?:a){0,0}b`, `(a){0}`,
	`(?:ab){3}`, `(?:ab){0,1}?`, `(a|b|c|d)`, `a|b|`, `|a`, `(|a)+`, `()`, `(?:)`, `(?:a*)*`, `(?:a+)+?`, `((a))`, `(?n)(a)(?<x>b)`, `(?<1>a)(?<1>b)`, `(?<x>a)|(?<x>b)`,
	`\p{L}+\P{L}`, `[\w-[a]]+`, `[^\n]*`, `[\s\S]`, `(?s).`, `(?m)^a$`, `\bab\B`, `(a)(?!\1)`, `(?(1)a)(b)`, `(?<a>x)(?<b>y)(?(a)p|q)(?(b)r)`,
}

func wrShape(rng *rand.Rand) string {
	pick := func(xs []string) string { return xs[rng.Intn(len(xs))] }
	piece := func() string {
		switch rng.Intn(10) {
		case 0, 1:
			return pick(wrSpecials)
		case 2:
			return pick(wrAtoms)
		default:
			a := pick(wrAtoms)
			if len(a) > 1 && a[0] != '[' && a[0] != '(' && a[0] != '\\' && a[0] != '.' {
				a = "(?:" + a + ")"
			}
			q := pick(wrQuants)
			if strings.HasPrefix(a, "^") || strings.HasPrefix(a, "$") {
				a = "(?:" + a + ")"
			}
			lazy := ""
			if rng.Intn(3) == 0 {
				lazy = "?"
			}
			return a + q + lazy
		}
	}
	n := 1 + rng.Intn(4)
	var b strings.Builder
	for i := 0; i < n; i++ {
		p := piece()
		switch rng.Intn(8) {
		case 0:
			if i > 0 {
				b.WriteByte('|')
			}
			b.WriteString(p)
		case 1:
			b.WriteString("(" + p + ")" + pick([]string{"", "*", "+?", "{2}", "{0,3}", "?"}))
		case 2:
			b.WriteString("(?:" + p + ")" + pick(wrQuants))
		default:
			b.WriteString(p)
		}
	}
	return b.String()
}

func wrGen(rng *rand.Rand, i int) wrCase {
	switch i % 10 {
	case 0, 1:
		return wrCase{Pattern: wrShape(rng), Opts: int32(wrOptSets[rng.Intn(len(wrOptSets))]), Order: rng.Intn(8) == 0, Source: "shapes"}
	case 2:
		loadHarvest()
		if len(harvested) > 0 {
			return wrCase{Pattern: harvested[rng.Intn(len(harvested))], Opts: int32(wrOptSets[rng.Intn(len(wrOptSets))]), Source: "harvest"}
		}
		fallthrough
	case 3:
		g := &c13Gen{rng: rng, budget: 10 + rng.Intn(60)}
		var f c13Frag
		switch rng.Intn(3) {
		case 0:
			f = g.tower(2 + rng.Intn(10))
		default:
			f = g.node(3 + rng.Intn(4))
		}
		return wrCase{Pattern: f.pat, Opts: int32(c13Opts[rng.Intn(len(c13Opts))]), Source: "c13"}
	case 4:
		o := randOpts(rng, rng.Intn(4) == 0, true)
		cfg := c01Config(o.RTL)(rng)
		cfg.Opts = o
		return wrCase{Pattern: gen.Random(rng, cfg).Print(o), Opts: int32(regexOptions(o)), Source: "fragment"}
	default:
		ro, o := randRegexOptions(rng, true)
		return wrCase{Pattern: gen.Random(rng, fullConfig(rng, o)).Print(o), Opts: int32(ro), Order: rng.Intn(10) == 0, Source: "full"}
	}
}

func wrCorpus() []wrCase {
	var cs []wrCase
	for _, p := range wrSpecials {
		cs = append(cs, wrCase{Pattern: p, Source: "corpus"}, wrCase{Pattern: p, Opts: int32(regexp2.RightToLeft), Source: "corpus"})
	}
	for _, a := range []string{"a", "[ab]", "(?:ab)", "(a)", "."} {
		for _, q := range wrQuants {
			cs = append(cs, wrCase{Pattern: a + q, Source: "corpus"}, wrCase{Pattern: a + q + "?", Source: "corpus"})
		}
	}
	cs = append(cs,
		wrCase{Pattern: `a{2147483647}`, Source: "corpus"}, wrCase{Pattern: `[ab]{2147483647}?`, Source: "corpus"}, wrCase{Pattern: `(?:ab){2147483647}`, Source: "corpus"},
		wrCase{Pattern: `(a)(?<x>b)(?<7>c)`, Source: "corpus"},
		wrCase{Pattern: `(?<01>a)(b)`, Order: true, Source: "corpus"},
		wrCase{Pattern: `(a)|(b)\2`, Opts: int32(regexp2.ECMAScript), Source: "corpus"},
		wrCase{Pattern: `(?:ab?)*c`, Source: "corpus"},
		// D48: sets / strings that differ only in surrogate code points are different table entries
		wrCase{Pattern: `[\uD800\uD900][\uD801\uD901]`, Source: "corpus"},
		wrCase{Pattern: `x\uD800(?=x\uDC00)`, Source: "corpus"},
		wrCase{Pattern: `(?<n>a)*?(?(n)b|c){2,5}(?>x+)(?<=y)`, Opts: int32(regexp2.RightToLeft), Source: "corpus"})
	return cs
}

// wrLeg registers leg Wr under the calling property with the given sizes.
func wrLeg(c *core.Ctx, quick, thorough int) {
	core.RunLeg(c, core.Leg[wrCase]{
		Name: "Wr", Kind: "correspondence(writer)",
		Rule:   "patterns: 20% quantifier/numbering/conditional/balancing shapes ({0,0} {n} {n,} {0,1} {n,m} * + ? greedy and lazy over literals, classes, groups, captures, alternations, lookarounds, atomic groups; sparse and explicit group numbers, named groups, balancing groups, both kinds of conditionals with and without an else branch), 10% literals harvested from the repository's tests, 10% towers / random trees of the C13 generator, 10% random ASTs of the C01 fragment, 50% random ASTs of the full syntax (nullable loops, \\G, balancing groups, Unicode classes, conditionals); option sets from {i,m,s,n,x,r,ECMAScript,RE2,Unicode} and MaintainCaptureOrder. For each: syntax.Parse; the root and (Captop, Capnumlist, Caps, RightToLeft) go to the Lean model Writer.write, whose answer must equal syntax.Write(tree) in Codes (word for word), Strings, Sets (Hash bytes, order), TrackCount, Capsize, Caps, RightToLeft, CaptureSlotInUse and QuickCodes; the driver also evaluates treeWf (hypothesis of emit_wf) and wfProg of both programs. Oracles on the Go program alone: jumps land on instruction boundaries, table operands name the node's own string/set, TrackCount counts backtracking opcodes. non-trivial = more than two node types in the tree; distinct by (options, pattern)",
		Corpus: wrCorpus(), N: c.N(quick, thorough), Gen: wrGen, Check: wrCheck, Batch: 1000,
	})
}
