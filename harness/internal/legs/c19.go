package legs

import (
	"math/rand"
	"strconv"
	"strings"
	"unicode"
	"unicode/utf8"

	"rvharness/internal/core"

	regexp2 "github.com/dlclark/regexp2/v2"
	"github.com/dlclark/regexp2/v2/syntax"
)

// C19 — Escape and Unescape are inverse and Escape yields a literal.

type c19Case struct {
	Runes []rune `json:"runes"`
	Mode  string `json:"mode"` // "escape" : s is plain text; "unescape": s is an escaped text fed to Unescape
	Opts  int    `json:"opts,omitempty"`
}

var c19Interesting = []rune{
	'\\', '.', '+', '*', '?', '(', ')', '|', '[', ']', '{', '}', '^', '$', '#', ' ', '-', ',', ':', '<', '>', '=', '!', '&', '~', '\'', '"', '/',
	0, 1, 7, 8, 9, 10, 11, 12, 13, 27, 31, 127, 0x80, 0x85, 0x9f, 0xa0, 0xad, 0xff,
	'0', '7', '8', '9', 'a', 'f', 'g', 'x', 'u', 'c', 'A', 'F', 'Z', '_', 'n', 't', 'e', 'b', 'd', 'w', 'k', 'p',
	0x100, 0x378, 0x379, 0x37f, 0x3a9, 0x600, 0x61c, 0x180e, 0x200b, 0x200c, 0x200d, 0x2028, 0x2029, 0x202e, 0x2060, 0xd7ff, 0xe000, 0xfeff, 0xfff9, 0xfffd, 0xfffe, 0xffff,
	0x10000, 0x1d173, 0x1f600, 0xe0001, 0xe0100, 0x2fa1e, 0xfffff, 0x10fffe, 0x10ffff, 0x110bd,
}

func c19Rune(rng *rand.Rand) rune {
	switch rng.Intn(10) {
	case 0, 1, 2, 3:
		return c19Interesting[rng.Intn(len(c19Interesting))]
	case 4, 5:
		return rune(rng.Intn(128))
	case 6:
		return rune(rng.Intn(0x800))
	case 7:
		for {
			r := rune(rng.Intn(0x10000))
			if r < 0xd800 || r > 0xdfff {
				return r
			}
		}
	default:
		return rune(0x10000 + rng.Intn(0x100000))
	}
}

func c19Gen(rng *rand.Rand, i int) c19Case {
	n := rng.Intn(7)
	if rng.Intn(8) == 0 {
		n = rng.Intn(30)
	}
	rs := make([]rune, n)
	for j := range rs {
		rs[j] = c19Rune(rng)
	}
	if i%4 == 3 {
		// escaped-looking text for the Unescape leg: sprinkle backslash forms
		forms := []string{`\x`, `\u`, `\c`, `\x{`, `\0`, `\12`, `\777`, `\a`, `\e`, `\_`, `\-`, `\é`, `\`, `}`, `41`, `0041`, `1F600}`,
			// forms the pattern parser reads differently from Unescape or differently per option set
			`\k`, `\k<`, `\k'`, `\k<1`, `\k<a`, `\<`, `\'`, `\<1>`, `\<0`, `\<a>`, `\<a`, `\'a'`, `\1`, `\8`, `\9`, `\10`, `\81`, `\40`, `\400`, `\08`,
			`\p`, `\pL`, `\P{L}`, `\d`, `\w`, `\S`, `\b`, `\A`, `\z`, `\u{`, `\u{41}`, `\x4`, `\xg`, `\cA`, `\c1`, `\q`, `\Q`, `\x{41}`, `\x{}`, `\x{110000}`,
			`{1}`, `{1,`, `{1,2}`, `{,2}`, `{`, `#`, ` `, "\n", "\t", `>`, `'`, `2147483648`, `\2147483648`}
		var sb strings.Builder
		for _, r := range rs {
			if rng.Intn(2) == 0 {
				sb.WriteString(forms[rng.Intn(len(forms))])
			}
			sb.WriteRune(r)
		}
		return c19Case{Runes: []rune(sb.String()), Mode: "unescape"}
	}
	return c19Case{Runes: rs, Mode: "escape", Opts: rng.Intn(10)}
}

func validRunes(rs []rune) bool {
	for _, r := range rs {
		if !utf8.ValidRune(r) {
			return false
		}
	}
	return true
}

// oracle rows: isPrint / isWord for the runes occurring in the case (from Go's unicode tables)
func c19Rows(rs []rune) string {
	seen := map[rune]bool{}
	var pr, wd []rune
	for _, r := range rs {
		if seen[r] {
			continue
		}
		seen[r] = true
		if unicode.IsPrint(r) {
			pr = append(pr, r)
		}
		if isWordCharStd(r) {
			wd = append(wd, r)
		}
	}
	return core.S("print", core.SInts(pr)) + " " + core.S("word", core.SInts(wd))
}

// isWordCharStd is the .NET word-character definition recomputed from the standard tables
// (L, Mn, Nd, Pc, ZWJ, ZWNJ) — deliberately not syntax.IsWordChar.
func isWordCharStd(r rune) bool {
	return unicode.In(r, unicode.L, unicode.Mn, unicode.Nd, unicode.Pc) || r == 0x200d || r == 0x200c
}

// c19ParseOpts: the option sets under which the tree the parser builds for a pattern is compared with
// the Lean model of the literal fragment (`EscapeParse.parseWhy`).  The first ten are the option sets of
// the compile-and-match oracle below (same order as c19Case.Opts).
var c19ParseOpts = []struct {
	name string
	ro   syntax.RegexOptions
}{
	{"none", 0},
	{"x", syntax.IgnorePatternWhitespace},
	{"ms", syntax.Multiline | syntax.Singleline},
	{"xns", syntax.IgnorePatternWhitespace | syntax.ExplicitCapture | syntax.Singleline},
	{"ecma", syntax.ECMAScript},
	{"re2", syntax.RE2},
	{"rtl", syntax.RightToLeft},
	{"ecma+m", syntax.ECMAScript | syntax.Multiline},
	{"re2+xs", syntax.RE2 | syntax.IgnorePatternWhitespace | syntax.Singleline},
	{"unicode+rtl+x", syntax.Unicode | syntax.RightToLeft | syntax.IgnorePatternWhitespace},
	{"ecma+u", syntax.ECMAScript | syntax.Unicode},
	{"ecma+x", syntax.ECMAScript | syntax.IgnorePatternWhitespace},
	{"ecma+u+x+rtl", syntax.ECMAScript | syntax.Unicode | syntax.IgnorePatternWhitespace | syntax.RightToLeft},
	{"re2+rtl", syntax.RE2 | syntax.RightToLeft},
}

// c19OptsSexp: `(opts (x ecma re2 u) …)` for the Lean driver
var c19OptsSexp = func() string {
	parts := make([]string, len(c19ParseOpts))
	for i, po := range c19ParseOpts {
		b := func(f syntax.RegexOptions) int {
			if po.ro&f != 0 {
				return 1
			}
			return 0
		}
		parts[i] = core.SInts([]int{b(syntax.IgnorePatternWhitespace), b(syntax.ECMAScript), b(syntax.RE2), b(syntax.Unicode)})
	}
	return core.S("opts", parts...)
}()

// c19Literal: is the parsed tree a pure literal — the implicit root capture over a One, a Multi, an
// Empty (empty pattern) or a concatenation of those — and which text does it spell.  A right-to-left
// concatenation lists its children in reverse text order; a Multi keeps its runes in text order.
func c19Literal(tree *syntax.RegexTree) ([]rune, bool) {
	root := tree.Root
	if root == nil || root.T != syntax.NtCapture || len(root.Children) != 1 {
		return nil, false
	}
	var walk func(n *syntax.RegexNode) ([]rune, bool)
	walk = func(n *syntax.RegexNode) ([]rune, bool) {
		switch n.T {
		case syntax.NtOne:
			if n.Options&syntax.IgnoreCase != 0 {
				return nil, false
			}
			return []rune{n.Ch}, true
		case syntax.NtMulti:
			if n.Options&syntax.IgnoreCase != 0 {
				return nil, false
			}
			return append([]rune{}, n.Str...), true
		case syntax.NtEmpty:
			return []rune{}, true
		case syntax.NtConcatenate:
			out := []rune{}
			for i := range n.Children {
				ch := n.Children[i]
				if n.Options&syntax.RightToLeft != 0 {
					ch = n.Children[len(n.Children)-1-i]
				}
				t, ok := walk(ch)
				if !ok {
					return nil, false
				}
				out = append(out, t...)
			}
			return out, true
		}
		return nil, false
	}
	return walk(root.Children[0])
}

// c19ParseGo: what the real parser makes of the pattern under one option set, in the vocabulary of the
// Lean answer: `(lit (runes))`, `(none error)` (Parse failed) or `(none tree)` (a tree that is not a literal)
func c19ParseGo(pat string, ro syntax.RegexOptions) string {
	tree, err := syntax.Parse(pat, syntax.ParseOptions{RegexOptions: ro})
	if err != nil {
		return "(none error)"
	}
	if t, ok := c19Literal(tree); ok {
		return core.S("lit", core.SInts(t))
	}
	return "(none tree)"
}

// c19ParseAgree: does the parser's reading agree with the model's answer?  `construct` = outside the
// modelled fragment (no claim); `nonlit` = the parser must not build a literal, except that a `{0…}`
// repeat can erase the non-literal unit again; `error` = the parser must fail; `lit` = same literal.
func c19ParseAgree(lean, goAns, pat string) bool {
	switch {
	case lean == "(none construct)":
		return true
	case lean == "(none error)":
		return goAns == "(none error)"
	case lean == "(none nonlit)":
		return !strings.HasPrefix(goAns, "(lit") || strings.Contains(pat, "{0")
	case strings.HasPrefix(lean, "(lit"):
		return goAns == lean
	}
	return false // fuel exhaustion or an unreadable answer
}

func c19Check(c *core.Ctx, cases []c19Case) []core.Outcome {
	outs := make([]core.Outcome, len(cases))
	lines := make([]string, len(cases))
	goAns := make([]string, len(cases))
	plines := make([]string, len(cases)) // parse requests (second half of the driver input)
	pgo := make([][]string, len(cases))  // the real parser's reading per option set
	ppat := make([]string, len(cases))   // the pattern parsed
	for i, cs := range cases {
		// the pattern whose parse is compared: Escape(s) as produced by Go, or the escaped-looking text itself
		pat := string(cs.Runes)
		if cs.Mode != "unescape" {
			pat = syntax.Escape(pat)
		}
		ppat[i] = pat
		plines[i] = core.S("c19", "parse", core.SRunes(pat), c19Rows([]rune(pat)), c19OptsSexp)
		pgo[i] = make([]string, len(c19ParseOpts))
		for k, po := range c19ParseOpts {
			pgo[i][k] = c19ParseGo(pat, po.ro)
		}
	}
	for i, cs := range cases {
		s := string(cs.Runes)
		o := &outs[i]
		o.Key = cs.Mode + ":" + s
		o.Nontrivial = len(cs.Runes) > 0
		if cs.Mode == "unescape" {
			u, err := syntax.Unescape(s)
			if err != nil {
				goAns[i] = "(err)"
				o.Buckets = append(o.Buckets, "unescape-err")
			} else {
				goAns[i] = core.S("ok", core.SRunes(u))
				o.Buckets = append(o.Buckets, "unescape-ok")
			}
			lines[i] = core.S("c19", "unescape", core.SInts(cs.Runes), c19Rows(append([]rune(s), []rune(u)...)))
			continue
		}
		esc := syntax.Escape(s)
		goAns[i] = core.S("ok", core.SRunes(esc))
		lines[i] = core.S("c19", "escape", core.SInts(cs.Runes), c19Rows(cs.Runes))
		if esc != s {
			o.Buckets = append(o.Buckets, "escape-changed")
		} else {
			o.Buckets = append(o.Buckets, "escape-identity")
		}
		// model-free property oracle -------------------------------------------------------
		if !validRunes(cs.Runes) {
			continue
		}
		back, err := syntax.Unescape(esc)
		if err != nil || back != s {
			got := "error"
			if err == nil {
				got = core.SRunes(back)
			} else {
				got = "error: " + err.Error()
			}
			o.Fail = &core.Failure{Kind: "impl-violation", Key: c19Key(cs.Runes, "roundtrip"), Summary: "Unescape(Escape(s)) != s; Escape(s) = " + esc, Expected: core.SRunes(s), Got: got}
			continue
		}
		// Escape(s) is read by the parser as the literal s under every option set (model-free: the real
		// parser's tree only)
		want := core.S("lit", core.SInts(cs.Runes))
		bad := -1
		for k := range c19ParseOpts {
			if pgo[i][k] != want {
				bad = k
				break
			}
		}
		if bad >= 0 {
			o.Fail = &core.Failure{Kind: "impl-violation", Key: "notliteral:" + c19ParseOpts[bad].name, Summary: "the parser does not read Escape(s) = " + esc + " as the literal s under options " + c19ParseOpts[bad].name, Expected: want, Got: pgo[i][bad]}
			continue
		}
		// Escape(s) compiles and, anchored, matches exactly s
		var ro regexp2.RegexOptions
		optName := "none"
		switch cs.Opts {
		case 1:
			ro = regexp2.IgnorePatternWhitespace
			optName = "x"
		case 2:
			ro = regexp2.Multiline | regexp2.Singleline
			optName = "ms"
		case 3:
			ro = regexp2.IgnorePatternWhitespace | regexp2.ExplicitCapture | regexp2.Singleline
			optName = "xns"
		case 4:
			ro = regexp2.ECMAScript
			optName = "ecma"
		case 5:
			ro = regexp2.RE2
			optName = "re2"
		case 6:
			ro = regexp2.RightToLeft
			optName = "rtl"
		case 7:
			ro = regexp2.ECMAScript | regexp2.Multiline
			optName = "ecma+m"
		case 8:
			ro = regexp2.RE2 | regexp2.IgnorePatternWhitespace | regexp2.Singleline
			optName = "re2+xs"
		case 9:
			ro = regexp2.Unicode | regexp2.RightToLeft | regexp2.IgnorePatternWhitespace
			optName = "unicode+rtl+x"
		}
		o.Buckets = append(o.Buckets, "opts-"+optName)
		re, err := regexp2.Compile(`\A(?:`+esc+`)\z`, ro)
		if err != nil {
			o.Fail = &core.Failure{Kind: "impl-violation", Key: c19Key(cs.Runes, "compile"), Summary: "Escape(s) does not compile under options " + optName + ": " + err.Error(), Expected: "compiles", Got: esc}
			continue
		}
		if ok, err := re.MatchRunes(cs.Runes); err != nil || !ok {
			o.Fail = &core.Failure{Kind: "impl-violation", Key: c19Key(cs.Runes, "nomatch"), Summary: "anchored Escape(s) does not match s under options " + optName, Expected: "match", Got: esc}
			continue
		}
		// ... and nothing else: single-rune edits of s must not match
		for k := 0; k < 3 && len(cs.Runes) > 0; k++ {
			t := append([]rune{}, cs.Runes...)
			j := (k*7 + len(t)/2) % len(t)
			switch k {
			case 0:
				t[j] = t[j] + 1
				if !utf8.ValidRune(t[j]) {
					t[j] = 'q'
				}
				if t[j] == cs.Runes[j] {
					continue
				}
			case 1:
				t = append(t[:j], t[j+1:]...)
			case 2:
				t = append(t, ' ')
			}
			if ok, _ := re.MatchRunes(t); ok {
				o.Fail = &core.Failure{Kind: "impl-violation", Key: c19Key(cs.Runes, "overmatch"), Summary: "anchored Escape(s) matches a different text under options " + optName, Expected: "no match of " + core.SInts(t), Got: esc}
				break
			}
		}
	}
	res, err := c.RunDriver(append(append([]string{}, lines...), plines...))
	if err != nil {
		for i := range outs {
			if outs[i].Fail == nil {
				outs[i].Fail = core.DriverFailure(err)
				break
			}
		}
		return outs
	}
	for i := range cases {
		if outs[i].Fail != nil {
			continue
		}
		if res[i] != goAns[i] {
			outs[i].Fail = &core.Failure{Kind: "correspondence-break", Key: "model:" + cases[i].Mode, Summary: "Lean model of " + cases[i].Mode + " disagrees with syntax." + strings.Title(cases[i].Mode), Expected: res[i], Got: goAns[i]}
			continue
		}
		// the parser's reading of the pattern vs the model of the literal fragment, per option set
		lean, ok := c19SplitAnswers(res[len(cases)+i])
		if !ok || len(lean) != len(c19ParseOpts) {
			outs[i].Fail = &core.Failure{Kind: "correspondence-break", Key: "model:parse", Summary: "unreadable answer of the Lean driver to a parse request", Expected: "(ok r1 … r" + strconv.Itoa(len(c19ParseOpts)) + ")", Got: res[len(cases)+i]}
			continue
		}
		kinds := map[string]bool{}
		for k, po := range c19ParseOpts {
			kind := lean[k]
			if strings.HasPrefix(kind, "(lit") {
				kind = "lit"
			} else {
				kind = strings.TrimSuffix(strings.TrimPrefix(kind, "(none "), ")")
			}
			kinds[kind] = true
			if !c19ParseAgree(lean[k], pgo[i][k], ppat[i]) && outs[i].Fail == nil {
				outs[i].Fail = &core.Failure{Kind: "correspondence-break", Key: "model:parse:" + kind, Summary: "Lean model parseLit disagrees with the tree syntax.Parse builds for " + core.SRunes(ppat[i]) + " under options " + po.name, Expected: lean[k], Got: pgo[i][k]}
			}
		}
		for _, kd := range []string{"lit", "construct", "nonlit", "error"} {
			if kinds[kd] {
				outs[i].Buckets = append(outs[i].Buckets, "parse-"+cases[i].Mode+"-"+kd)
			}
		}
		if len(kinds) > 1 || lean[0] != lean[4] || lean[0] != lean[5] || lean[0] != lean[1] || lean[4] != lean[10] {
			outs[i].Buckets = append(outs[i].Buckets, "parse-"+cases[i].Mode+"-option-dependent")
		}
	}
	return outs
}

// c19SplitAnswers splits `(ok r1 r2 …)` into its top-level elements.
func c19SplitAnswers(ans string) ([]string, bool) {
	if !strings.HasPrefix(ans, "(ok") || !strings.HasSuffix(ans, ")") {
		return nil, false
	}
	body := ans[3 : len(ans)-1]
	var out []string
	depth, start := 0, -1
	for i := 0; i < len(body); i++ {
		switch body[i] {
		case '(':
			if depth == 0 {
				start = i
			}
			depth++
		case ')':
			depth--
			if depth == 0 && start >= 0 {
				out = append(out, body[start:i+1])
				start = -1
			}
			if depth < 0 {
				return nil, false
			}
		}
	}
	return out, depth == 0
}

// c19Key classifies a round-trip failure by the kind of rune that triggers it.
func c19Key(rs []rune, what string) string {
	for _, r := range rs {
		if !unicode.IsPrint(r) && r >= 0x100 {
			if r > 0xffff {
				return what + ":nonprintable-astral"
			}
			return what + ":nonprintable-bmp"
		}
	}
	return what + ":other"
}

func init() {
	core.Register("C19", func(c *core.Ctx) {
		corpus := []c19Case{
			{Runes: []rune{0x378, 'x'}, Mode: "escape"},
			{Runes: []rune{0x10ffff}, Mode: "escape"},
			{Runes: []rune{0x2028, 'a', 'b'}, Mode: "escape", Opts: 1},
			{Runes: []rune("a b#c\t\n\v\f\r"), Mode: "escape", Opts: 1},
			{Runes: []rune(`\x41B\cC\x{1F600}\101\e`), Mode: "unescape"},
			{Runes: []rune(`\u378x`), Mode: "unescape"},
			{Runes: []rune(`abc\`), Mode: "unescape"},
			// the parser's reading per option set (EscapeParse.parseWhy): the two seeded mutations
			// (astral non-printable rune; BEL) and the option-dependent escapes
			{Runes: []rune{'t', 0xe0001, 0x40000, '{', '2', '}'}, Mode: "escape", Opts: 4},
			{Runes: []rune("ring\athe bell\x1b41"), Mode: "escape", Opts: 7},
			{Runes: []rune(`\x{41}\x{f}\u{41}\u{f}`), Mode: "unescape"},
			{Runes: []rune(`\a\e\_\q\k<1x\<1\<a b\'`), Mode: "unescape"},
			{Runes: []rune("a b#c\n{2}\\ \\#{x"), Mode: "unescape"},
			{Runes: []rune(`\101\81\400\777\08\cA\c1`), Mode: "unescape"},
			{Runes: []rune(`\pL`), Mode: "unescape"},
			{Runes: []rune(`a\d`), Mode: "unescape"},
			{Runes: []rune(`\k<a>`), Mode: "unescape"},
			{Runes: []rune(`\2147483648`), Mode: "unescape"},
		}
		core.RunLeg(c, core.Leg[c19Case]{
			Name: "E", Kind: "correspondence+oracle",
			Rule:   "random rune strings (40% from a list of metacharacters, whitespace, controls, non-printable BMP/astral and unassigned code points; rest uniform over ASCII / U+0000-07FF / BMP / astral), every 4th case an escaped-looking text (stray backslash forms: hex, octal, control, reference, class, anchor, property forms, braces, blanks, #); non-trivial = non-empty; distinct by (mode,string). Each case: (1) Go Escape/Unescape vs the Lean model; (2) the tree syntax.Parse builds for the pattern (Escape(s) as produced by Go, or the escaped-looking text) under 14 option sets (none, x, ms, xns, ecma, re2, rtl, ecma+m, re2+xs, unicode+rtl+x, ecma+u, ecma+x, ecma+u+x+rtl, re2+rtl) vs the Lean model of the literal fragment (parseWhy): model says literal t <=> the tree is a concatenation of One/Multi nodes spelling t; model says error => Parse fails; model says non-literal unit => no literal tree; constructs outside the fragment are not compared; (3) the model-free oracle Unescape(Escape(s))=s, the parser reads Escape(s) as the literal s under all 14 option sets, Escape(s) compiles under the drawn options and \\A(?:Escape(s))\\z matches s and none of 3 single-rune edits of s",
			Corpus: corpus, N: c.N(6000, 300000), Gen: c19Gen, Check: c19Check,
		})
		parserLeg(c, 400, 6000) // leg Pr: the parser model (parser.go)
	})
}
