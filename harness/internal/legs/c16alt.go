package legs

import (
	"fmt"
	"math/rand"
	"strings"

	"github.com/dlclark/regexp2/v2"

	"rvharness/internal/core"
)

// C16, leg Ka — classes that the COMPILER builds: an alternation of single-character atoms
// (`\s|\d`, `a|[x-z]|\p{Lu}`) is merged into one set by the tree reducer. The property covers "every
// normalisation the compiler applies to classes", so the merged set must be the union of its parts —
// also when several merges start from the same shorthand class (the shorthand classes are shared
// templates: a merge must not write into what another class still uses), inside one pattern and across
// patterns compiled one after the other.

type c16AltCase struct {
	A    c16Item `json:"a"`
	B    c16Item `json:"b"`
	C    c16Item `json:"c"`
	Opts int     `json:"opts"` // 0, ECMAScript 256, RE2 512
}

func c16Atom(it c16Item) string {
	var sb strings.Builder
	switch it.K {
	case "r":
		if it.Lo == it.Hi {
			c16Esc(&sb, it.Lo)
		} else {
			sb.WriteByte('[')
			c16Esc(&sb, it.Lo)
			sb.WriteByte('-')
			c16Esc(&sb, it.Hi)
			sb.WriteByte(']')
		}
	default:
		c := c16Class{Items: []c16Item{it}}
		s := c.String() // "[\s]" / "[\p{Lu}]"
		sb.WriteString(s[1 : len(s)-1])
	}
	return sb.String()
}

func c16AltGen(rng *rand.Rand, i int) c16AltCase {
	opts := []int{0, 0, 0, c16RE2, c16E}[rng.Intn(5)]
	item := func() c16Item {
		for {
			it := c16GenItem(rng, opts)
			if it.K == "px" {
				continue
			}
			if it.K == "r" && (it.Hi-it.Lo > 0x3000 || it.Lo >= 0xd800 && it.Lo <= 0xdfff) {
				continue
			}
			return it
		}
	}
	cs := c16AltCase{A: item(), B: item(), C: item(), Opts: opts}
	if rng.Intn(2) == 0 {
		// the shape of the shared-template hazard: the same shorthand first, a category or another shorthand second
		cs.A = c16Item{K: "sh", Name: []string{"d", "w", "s"}[rng.Intn(3)], Neg: rng.Intn(4) == 0}
		if opts != c16E && rng.Intn(2) == 0 {
			cs.B = c16Item{K: "p", Name: c16Props[rng.Intn(len(c16Props))]}
			cs.C = c16Item{K: "p", Name: c16Props[rng.Intn(len(c16Props))]}
		}
	}
	return cs
}

func c16AltCheck(c *core.Ctx, cases []c16AltCase) []core.Outcome {
	outs := make([]core.Outcome, len(cases))
	for i := range cases {
		cs := &cases[i]
		o := &outs[i]
		a, b, cc := c16Atom(cs.A), c16Atom(cs.B), c16Atom(cs.C)
		o.Key = fmt.Sprintf("%d|%s|%s|%s", cs.Opts, a, b, cc)
		o.Nontrivial = true
		o.Buckets = append(o.Buckets, "opts-"+c16OptName(cs.Opts), "kinds-"+cs.A.K+cs.B.K+cs.C.K)
		sem := c16SemOf(cs.Opts)
		fa, _ := sem.plain(cs.A)
		fb, _ := sem.plain(cs.B)
		fc, _ := sem.plain(cs.C)
		end := "$" // RE2 / ECMAScript: the very end only
		if cs.Opts == 0 {
			end = `\z`
		}
		p1, p2 := "^(?:"+a+"|"+b+")"+end, "^(?:"+a+"|"+cc+")"+end
		p3 := "^(?:(?:" + a + "|" + b + ")|x(?:" + a + "|" + cc + "))" + end
		var res [3]*regexp2.Regexp
		var err error
		for k, p := range []string{p1, p2, p3} {
			if res[k], err = regexp2.Compile(p, regexp2.RegexOptions(cs.Opts)); err != nil {
				break
			}
		}
		if err != nil {
			o.Fail = &core.Failure{Kind: "impl-violation", Key: "altmerge-compile:" + c16OptName(cs.Opts), Summary: "an alternation of single-character atoms does not compile: " + err.Error(), Expected: "compiles", Got: p3}
			continue
		}
		var dom []rune
		c16EndsOf := func(it c16Item) {
			if it.K == "r" {
				dom = append(dom, it.Lo-1, it.Lo, it.Hi, it.Hi+1)
			}
		}
		c16EndsOf(cs.A)
		c16EndsOf(cs.B)
		c16EndsOf(cs.C)
		dom = append(dom, c16Interesting...)
		dom = c16Uniq(dom, c16ValidRune)
		for _, r := range dom {
			wa, wb, wc := fa(r), fb(r), fc(r)
			type probe struct {
				name string
				re   *regexp2.Regexp
				in   []rune
				want bool
			}
			for _, pr := range []probe{
				{"first pattern (compiled before the second)", res[0], []rune{r}, wa || wb},
				{"second pattern", res[1], []rune{r}, wa || wc},
				{"both merges in one pattern, first", res[2], []rune{r}, wa || wb},
				{"both merges in one pattern, second", res[2], []rune{'x', r}, wa || wc},
			} {
				got, merr := pr.re.MatchRunes(pr.in)
				if merr != nil {
					continue
				}
				want := pr.want
				if len(pr.in) == 1 && pr.re == res[2] && r == 'x' {
					continue // "x" alone could also be the prefix of the second branch: not a one-rune probe
				}
				if got != want && o.Fail == nil {
					o.Fail = &core.Failure{Kind: "impl-violation", Key: "altmerge:" + c16OptName(cs.Opts),
						Summary:  fmt.Sprintf("the set built from an alternation of single-character atoms is not the union of its parts: %s, patterns %q then %q (combined %q), rune U+%04X", pr.name, p1, p2, p3, r),
						Expected: fmt.Sprint(want), Got: fmt.Sprint(got)}
				}
			}
		}
	}
	return outs
}

func c16AltLeg(c *core.Ctx) {
	core.RunLeg(c, core.Leg[c16AltCase]{
		Name: "Ka", Kind: "oracle(set algebra of compiler-built classes)",
		Rule: "three single-character atoms A, B, C (a rune, a range, \\d \\w \\s and their negations, \\p{..}/\\P{..}; half of the cases start from a shorthand class) under default / RE2 / ECMAScript options; ^(?:A|B)$ is compiled first, then ^(?:A|C)$, then both merges in one pattern; every rune of a fixed list of ~170 interesting runes plus the range endpoints ±1 must match exactly when the union of the parts (recomputed from Go's unicode tables) contains it — the first pattern is probed AFTER the second was compiled; non-trivial = all",
		N:    c.N(400, 20000), Gen: c16AltGen, Check: c16AltCheck, Batch: 100,
	})
}
