package legs

import (
	"fmt"
	"math/rand"
	"strings"
	"time"

	"github.com/dlclark/regexp2/v2"

	"rvharness/internal/core"
)

// C14, leg Ep — the timeout reaches the caller through EVERY entry point.
//
// Legs H, B and I time MatchString. The property speaks of "a match that would run longer": the same deadline
// guards the searches made on behalf of Replace, ReplaceFunc, Split, the FindAll family and FindNextMatch, and
// each of those has glue of its own between the runner's error and the caller (loops that collect pieces,
// early exits for "nothing matched"). A timeout swallowed there looks, to the caller, like a search that
// finished: no error, a wrong result, after about d. Here every entry point runs a search that needs far
// longer than d — as the first search of the call, or as a later one after an instant first match — and must
// return the timeout error inside the same window the other legs use; with an hour of timeout and an instant
// search it must return none.

type c14EntryCase struct {
	Entry  string `json:"entry"`
	Kind   string `json:"kind"`   // cat | spread
	Second bool   `json:"second"` // the slow search is the second of the call (an instant match comes first)
	D      int64  `json:"d"`      // MatchTimeout, ns
}

var c14Entries = []string{"MatchString", "MatchRunes", "FindStringMatch", "FindRunesMatch", "FindStringMatchStartingAt", "FindRunesMatchStartingAt",
	"FindNextMatch", "FindAllStringIndex", "FindAllRunesIndex", "Replace", "ReplaceFunc", "Split", "Split2", "ReplaceCount1"}

func c14EntryGen(rng *rand.Rand, i int) c14EntryCase {
	cs := c14EntryCase{Entry: c14Entries[i%len(c14Entries)], Kind: []string{"cat", "spread"}[rng.Intn(2)], D: int64(30+rng.Intn(60)) * c14Ms}
	cs.Second = rng.Intn(2) == 0
	return cs
}

// c14EntrySecondOK: entry points that make more than one search per call (the others stop at the first match).
func c14EntrySecondOK(entry string) bool {
	switch entry {
	case "FindNextMatch", "FindAllStringIndex", "FindAllRunesIndex", "Replace", "ReplaceFunc", "Split":
		return true
	}
	return false
}

// c14EntryCall runs one entry point; it returns the error of the call and a short description of the result.
func c14EntryCall(entry string, re *regexp2.Regexp, in string) (err error, res string) {
	switch entry {
	case "MatchString":
		var b bool
		b, err = re.MatchString(in)
		res = fmt.Sprint(b)
	case "MatchRunes":
		var b bool
		b, err = re.MatchRunes([]rune(in))
		res = fmt.Sprint(b)
	case "FindStringMatch":
		var m *regexp2.Match
		m, err = re.FindStringMatch(in)
		res = fmt.Sprint(m != nil)
	case "FindRunesMatch":
		var m *regexp2.Match
		m, err = re.FindRunesMatch([]rune(in))
		res = fmt.Sprint(m != nil)
	case "FindStringMatchStartingAt":
		var m *regexp2.Match
		m, err = re.FindStringMatchStartingAt(in, 0)
		res = fmt.Sprint(m != nil)
	case "FindRunesMatchStartingAt":
		var m *regexp2.Match
		m, err = re.FindRunesMatchStartingAt([]rune(in), 0)
		res = fmt.Sprint(m != nil)
	case "FindNextMatch":
		var m *regexp2.Match
		m, err = re.FindStringMatch(in)
		for err == nil && m != nil {
			m, err = re.FindNextMatch(m)
		}
		res = "chain"
	case "FindAllStringIndex":
		var all [][]int
		all, err = re.FindAllStringIndex(in, -1)
		res = fmt.Sprint(len(all), " matches")
	case "FindAllRunesIndex":
		var all [][]int
		all, err = re.FindAllRunesIndex([]rune(in), -1)
		res = fmt.Sprint(len(all), " matches")
	case "Replace":
		var s string
		s, err = re.Replace(in, "-", -1, -1)
		res = fmt.Sprintf("%d bytes", len(s))
	case "ReplaceCount1":
		var s string
		s, err = re.Replace(in, "$0", -1, 1)
		res = fmt.Sprintf("%d bytes", len(s))
	case "ReplaceFunc":
		var s string
		s, err = re.ReplaceFunc(in, func(m regexp2.Match) string { return "-" }, -1, -1)
		res = fmt.Sprintf("%d bytes", len(s))
	case "Split":
		var p []string
		p, err = re.Split(in, -1)
		res = fmt.Sprint(len(p), " pieces")
	case "Split2":
		var p []string
		p, err = re.Split(in, 2)
		res = fmt.Sprint(len(p), " pieces")
	}
	return
}

func c14EntryCheck(c *core.Ctx, cases []c14EntryCase) []core.Outcome {
	c14Calibrate()
	lateAllow := c14LateAllow(c)
	outs := make([]core.Outcome, len(cases))
	regexp2.SetTimeoutCheckPeriod(time.Duration(c14Ms))
	defer func() {
		if c14StopClock() {
			regexp2.SetTimeoutCheckPeriod(regexp2.DefaultClockPeriod)
		}
	}()
	for i := range cases {
		cs := cases[i]
		o := &outs[i]
		second := cs.Second && c14EntrySecondOK(cs.Entry)
		o.Key = fmt.Sprintf("%s|%s|%v|%d", cs.Entry, cs.Kind, second, cs.D)
		o.Nontrivial = true
		o.Buckets = append(o.Buckets, "entry="+cs.Entry, "kind="+cs.Kind, fmt.Sprintf("second=%v", second))
		pat, in := `(a+)+$`, c14CatInput
		if cs.Kind == "spread" {
			pat, in = `(\w+)\s*(\w+)\s*=`, c14SpreadInput
		}
		if second {
			// an instant match first ('!' at position 0), then the slow search over the rest
			pat, in = pat+`|!`, "!"+in
		}
		// the slow search must be reported
		var found *core.Failure
		for try := 0; try < 3; try++ {
			found = nil
			re := regexp2.MustCompile(pat)
			re.MatchTimeout = time.Duration(cs.D)
			t0 := time.Now()
			err, res := c14EntryCall(cs.Entry, re, in)
			el := int64(time.Since(t0))
			switch {
			case err == nil:
				found = &core.Failure{Kind: "impl-violation", Key: "Ep:swallowed:" + cs.Entry,
					Summary:  fmt.Sprintf("%s with MatchTimeout %dms on a search that needs seconds (pattern %q, %d-byte input) returned no error after %dms (result: %s): the timeout was not reported to the caller", cs.Entry, cs.D/c14Ms, pat, len(in), el/c14Ms, res),
					Expected: "a match timeout error", Got: "nil error, " + res}
			case !strings.Contains(err.Error(), "match timeout"):
				found = &core.Failure{Kind: "impl-violation", Key: "Ep:other-error:" + cs.Entry, Summary: fmt.Sprintf("%s with MatchTimeout %dms returned an error that is not the timeout", cs.Entry, cs.D/c14Ms), Expected: "a match timeout error", Got: err.Error()}
			case el < cs.D-2*c14Ms-10*c14Ms:
				found = &core.Failure{Kind: "impl-violation", Key: "Ep:early:" + cs.Entry, Summary: fmt.Sprintf("%s reported a timeout of %dms after %dms", cs.Entry, cs.D/c14Ms, el/c14Ms), Expected: fmt.Sprintf(">= %dms", (cs.D-12*c14Ms)/c14Ms), Got: fmt.Sprintf("%dms", el/c14Ms)}
			case el > 2*cs.D+3*c14Ms+lateAllow:
				// a call that makes two searches may spend the instant one first; one deadline per search
				found = &core.Failure{Kind: "impl-violation", Key: "Ep:late:" + cs.Entry, Summary: fmt.Sprintf("%s reported a timeout of %dms only after %dms", cs.Entry, cs.D/c14Ms, el/c14Ms), Expected: fmt.Sprintf("<= %dms", (2*cs.D+3*c14Ms+lateAllow)/c14Ms), Got: fmt.Sprintf("%dms", el/c14Ms)}
			}
			if found == nil {
				break
			}
		}
		if found != nil {
			o.Fail = found
			continue
		}
		// and a search that finishes at once under an hour of timeout reports none
		re := regexp2.MustCompile(`a+b|!`)
		re.MatchTimeout = time.Hour
		if err, _ := c14EntryCall(cs.Entry, re, "!xxaab xab"); err != nil {
			o.Fail = &core.Failure{Kind: "impl-violation", Key: "Ep:spurious:" + cs.Entry, Summary: fmt.Sprintf("%s with an hour of MatchTimeout on an instant search returned an error", cs.Entry), Expected: "nil", Got: err.Error()}
		}
		if cs.Entry == "FindNextMatch" && o.Fail == nil {
			// a continuation after an idle period longer than the timeout: every search arms its own deadline, the
			// one left behind by the search that produced the previous match has long passed
			re := regexp2.MustCompile(`\w+`)
			re.MatchTimeout = 30 * time.Millisecond
			m, err := re.FindStringMatch("alpha beta gamma")
			for k := 0; k < 2 && err == nil && m != nil; k++ {
				time.Sleep(re.MatchTimeout + 25*time.Millisecond)
				m, err = re.FindNextMatch(m)
			}
			if err != nil {
				o.Fail = &core.Failure{Kind: "impl-violation", Key: "Ep:stale-deadline", Summary: "FindNextMatch on an instant search, called 55ms after the previous match with MatchTimeout 30ms, returned an error: the continuation ran against the deadline of the earlier search", Expected: "nil", Got: err.Error()}
			}
		}
	}
	return outs
}

func c14EntryLeg(c *core.Ctx) {
	var corpus []c14EntryCase
	for _, e := range c14Entries {
		corpus = append(corpus, c14EntryCase{Entry: e, Kind: "cat", D: 40 * c14Ms})
		if c14EntrySecondOK(e) {
			corpus = append(corpus, c14EntryCase{Entry: e, Kind: "cat", Second: true, D: 40 * c14Ms})
		}
	}
	core.RunLeg(c, core.Leg[c14EntryCase]{
		Name: "Ep", Kind: "oracle(every entry point reports the timeout)",
		Rule:   "entry points MatchString, MatchRunes, FindStringMatch, FindRunesMatch, Find*MatchStartingAt, the FindNextMatch chain, FindAllStringIndex, FindAllRunesIndex, Replace (all / count 1), ReplaceFunc, Split (all / count 2), each on a search that needs seconds ((a+)+$ on the calibrated input, or the cubic scan spread over a thousand start positions) with MatchTimeout 30-89ms — as the first search of the call, or (entry points that search repeatedly) as the second one after an instant match: the call must return the timeout error, not earlier than d - 2 ticks - 10ms, not later than 2d + 3 ticks + allowance; the same entry point on an instant search with an hour of timeout returns no error, and a FindNextMatch continuation made 55ms after the previous match under MatchTimeout 30ms returns none either (every search arms its own deadline). A finding must recur in 3 of 3 executions. The corpus runs every entry point in both positions first. non-trivial = all",
		Corpus: corpus, N: c.N(0, 120), Gen: c14EntryGen, Check: c14EntryCheck, Batch: 8,
	})
}
