package legs

import (
	"fmt"
	"math/rand"
	"regexp"
	"strings"
	"unicode/utf8"

	"rvharness/internal/core"
	"rvharness/internal/gen"
)

// C06, leg Q — the specification against an engine that shares no code with regexp2.
//
// C01 ties regexp2 to the Lean specification Spec.find, C06 (leg G) ties the RE2-mode adapter to Go's
// regexp package. This leg closes the triangle: on the syntax common to both engines the SPECIFICATION
// itself must say what the standard library says (leftmost match, first alternative first, greedy /
// lazy preference, last capture of every group). A difference means the specification is not the
// leftmost-first semantics the property texts talk about, or one of the two other legs is about to
// fail; it is reported as a correspondence break of the model, with the case as replay.

// c06SpecConfig: the constructs both engines share (no backreferences, lookaround, atomic groups,
// conditionals, (?x), (?n)); RE2 dialect always on.
func c06SpecConfig(rng *rand.Rand) gen.Config {
	o := gen.Opts{RE2: true}
	if rng.Intn(3) != 0 {
		o.I = rng.Intn(3) == 0
		o.M = rng.Intn(3) == 0
		o.S = rng.Intn(3) == 0
	}
	// unnamed groups only: regexp2 numbers named groups after the unnamed ones, regexp by position (C17, leg G of C06)
	return gen.Config{MaxDepth: 2 + rng.Intn(3), Opts: o, Anchors: true, LazyQuant: true}
}

// c06LastOnly keeps, for every group of a rendered answer "(ok i l (caps…) (caps…) …)", only its last
// capture — what a regexp-style API can observe.
func c06LastOnly(ans string) string {
	if !strings.HasPrefix(ans, "(ok ") || !strings.HasSuffix(ans, ")") {
		return ans
	}
	inner := ans[1 : len(ans)-1] // ok I L (caps…) (caps…)
	p := strings.Index(inner, "(")
	if p < 0 {
		return ans
	}
	var b strings.Builder
	b.WriteString("(" + strings.TrimRight(inner[:p], " "))
	depth, start := 0, -1
	for i := p; i < len(inner); i++ {
		switch inner[i] {
		case '(':
			if depth == 0 {
				start = i
			}
			depth++
		case ')':
			depth--
			if depth == 0 {
				body := inner[start+1 : i]
				if k := strings.LastIndex(body, "("); k >= 0 {
					body = body[k:]
				}
				b.WriteString(" (" + body + ")")
			}
		}
	}
	b.WriteByte(')')
	return b.String()
}

func c06SpecCheck(c *core.Ctx, cases []specCase) []core.Outcome {
	outs := make([]core.Outcome, len(cases))
	lines := make([]string, len(cases))
	stdAns := make([]string, len(cases))
	type centry struct {
		re  *regexp.Regexp
		err error
		ng  int
	}
	cache := map[string]*centry{}
	for i := range cases {
		cs := &cases[i]
		o := &outs[i]
		cs.Start = 0
		ng := gen.AssignGroups(cs.Ast, cs.Opts)
		pat := cs.Ast.Print(cs.Opts)
		cs.Pattern = pat
		flags := ""
		if cs.Opts.I {
			flags += "i"
		}
		if cs.Opts.M {
			flags += "m"
		}
		if cs.Opts.S {
			flags += "s"
		}
		std := pat
		if flags != "" {
			std = "(?" + flags + ")" + pat
		}
		key := cs.Opts.String() + "\x00" + pat
		e := cache[key]
		if e == nil {
			e = &centry{ng: ng}
			e.re, e.err = regexp.Compile(std)
			cache[key] = e
		}
		o.Key = fmt.Sprintf("%s|%s", key, string(cs.Text))
		o.Nontrivial = cs.Ast.Size() > 1 && len(cs.Text) > 0
		if e.err != nil {
			// outside the common syntax (\Z, \G, class subtraction, …): nothing to compare
			o.Buckets = append(o.Buckets, "std-rejects")
			continue
		}
		if e.re.NumSubexp() != ng {
			o.Buckets = append(o.Buckets, "group-count-differs")
			continue
		}
		if !cs.Ast.InFragment() {
			o.Buckets = append(o.Buckets, "outside-fragment")
			continue
		}
		sub := false
		cs.Ast.Walk(func(x *gen.Node) {
			if x.Kind == gen.KClass && x.Class != nil && x.Class.Sub != nil {
				sub = true
			}
		})
		if sub {
			// [a-z-[b]]: class subtraction is .NET syntax, regexp reads "-[" literally
			o.Buckets = append(o.Buckets, "class-subtraction")
			continue
		}
		text := string(cs.Text)
		// byte offset -> rune offset
		r2b := make(map[int]int, len(cs.Text)+1)
		bi := 0
		for ri, r := range cs.Text {
			r2b[bi] = ri
			bi += utf8.RuneLen(r)
		}
		r2b[bi] = len(cs.Text)
		ix := e.re.FindStringSubmatchIndex(text)
		if ix == nil {
			stdAns[i] = "(none)"
			o.Buckets = append(o.Buckets, "nomatch")
		} else {
			var b strings.Builder
			fmt.Fprintf(&b, "(ok %d %d", r2b[ix[0]], r2b[ix[1]]-r2b[ix[0]])
			for k := 1; k <= ng; k++ {
				if ix[2*k] < 0 {
					b.WriteString(" ()")
				} else {
					fmt.Fprintf(&b, " ((%d %d))", r2b[ix[2*k]], r2b[ix[2*k+1]]-r2b[ix[2*k]])
				}
			}
			b.WriteByte(')')
			stdAns[i] = b.String()
			o.Buckets = append(o.Buckets, "match")
		}
		o.Buckets = append(o.Buckets, "opts="+cs.Opts.String())
		lines[i] = fmt.Sprintf("(c01 find %s %d %d %s %s)", core.SBool(false), 0, ng, cs.Ast.Sexp(cs.Opts),
			gen.EnvSexp(cs.Text, 0, cs.Ast.PatRunes(), cs.Opts))
	}
	var idx []int
	var send []string
	for i := range cases {
		if lines[i] != "" {
			idx = append(idx, i)
			send = append(send, lines[i])
		}
	}
	res, err := c.RunDriver(send)
	if err != nil {
		for i := range outs {
			if outs[i].Fail == nil {
				outs[i].Fail = core.DriverFailure(err)
				break
			}
		}
		return outs
	}
	for k, i := range idx {
		if res[k] == core.DriverTimeout {
			outs[i].Buckets = append(outs[i].Buckets, "model-timeout")
			continue
		}
		if got := c06LastOnly(res[k]); got != stdAns[i] {
			outs[i].Fail = &core.Failure{Kind: "correspondence-break", Key: "C06:spec-vs-stdlib:" + classify(cases[i].Ast, cases[i].Opts),
				Summary:  fmt.Sprintf("the specification (Spec.find, last capture per group) differs from Go's regexp on the common syntax: pattern %q options %s input %q", cases[i].Pattern, cases[i].Opts, string(cases[i].Text)),
				Expected: stdAns[i], Got: got}
		}
	}
	return outs
}

func c06SpecLeg(c *core.Ctx) {
	st := &specGenState{cfg: c06SpecConfig, perAst: 8, maxLen: 10}
	core.RunLeg(c, core.Leg[specCase]{
		Name: "Q", Kind: "correspondence(specification vs Go's regexp)",
		Rule: "random ASTs of the C01 fragment restricted to the syntax Go's regexp shares (literals, classes, dot, shorthands, ^ $ \\A \\z \\b \\B, alternation, capturing groups, greedy and lazy quantifiers on non-nullable non-quantifier bodies), RE2 dialect, options from {i,m,s}; 8 pattern-directed inputs per AST; Lean Spec.find on the AST, reduced to the last capture of every group, vs regexp.FindStringSubmatchIndex of the same pattern (options as a leading flag group), byte offsets converted to runes; patterns regexp rejects are skipped; non-trivial = AST has >1 node and input non-empty",
		N:    c.N(3000, 200000), Gen: st.next, Check: c06SpecCheck, Batch: 3000,
	})
}
