package legs

import (
	"fmt"
	"math/rand"
	"strings"
	"unicode"

	"rvharness/internal/core"

	regexp2 "github.com/dlclark/regexp2/v2"
	"github.com/dlclark/regexp2/v2/syntax"
)

// Leg Fm: the candidate-finder models (Model/Finders.lean) against the real findFirstChar.
//
// For one (pattern, options, input, \G origin) the facts the finder reads of the compiled program are
// exported — the four anchor bits, the Boyer-Moore prefix and its case flag, the find mode with its
// prefix strings / distances / fixed-distance sets / literal-after-loop / landmark chain, the
// first-character set, MinRequiredLength — with every character set as a membership table over the
// runes occurring in the input (and unicode.ToLower as a table over the same runes). The Lean driver
// runs the model of findFirstCharDefault from every position 0..len; the Go side calls the real finder
// through the hook VerifFindFirstChar at every position. (found, position left) must agree everywhere,
// and so must the path of the dispatch.

// c03Tbl renders a membership table: (tbl 0 r…) lists the distinct runes of the input that are members.
func c03Tbl(in func(rune) bool, alphabet []rune) string {
	var b strings.Builder
	b.WriteString("(tbl 0")
	for _, r := range alphabet {
		if in(r) {
			fmt.Fprintf(&b, " %d", r)
		}
	}
	b.WriteByte(')')
	return b.String()
}

func c03SetTbl(s *syntax.CharSet, alphabet []rune) string {
	if s == nil {
		return "x"
	}
	return c03Tbl(s.CharIn, alphabet)
}

func c03Runes(tag string, rs []rune) string {
	var b strings.Builder
	b.WriteByte('(')
	b.WriteString(tag)
	for _, r := range rs {
		fmt.Fprintf(&b, " %d", r)
	}
	b.WriteByte(')')
	return b.String()
}

// c03BmFields reads the pattern and the case flag of a Boyer-Moore prefix (hook BmPrefix.VerifPattern).
func c03BmFields(b *syntax.BmPrefix) (pat []rune, ci bool) {
	pat, ci, _ = b.VerifPattern()
	return pat, ci
}

const c03AnchorBits = syntax.AnchorBeginning | syntax.AnchorStart | syntax.AnchorEndZ | syntax.AnchorEnd

// c03FinderPath mirrors the dispatch of findFirstCharDefault for the histogram (the model computes it too).
func c03FinderPath(code *syntax.Code) string {
	switch {
	case code.Anchors&c03AnchorBits != 0:
		return "anchors"
	case code.BmPrefix != nil:
		return "bm"
	}
	if fo := code.FindOptimizations; fo != nil {
		switch fo.FindMode {
		case syntax.TrailingAnchor_FixedLength_LeftToRight_End, syntax.LeadingString_OrdinalIgnoreCase_LeftToRight,
			syntax.LeadingStrings_LeftToRight, syntax.LeadingStrings_OrdinalIgnoreCase_LeftToRight,
			syntax.FixedDistanceChar_LeftToRight, syntax.FixedDistanceString_LeftToRight, syntax.FixedDistanceSets_LeftToRight,
			syntax.LiteralAfterLoop_LeftToRight, syntax.RequiredLandmarkChain_LeftToRight:
			return "opt"
		case syntax.LeadingSet_LeftToRight:
			if len(fo.FixedDistanceSets) > 0 && ((len(fo.FixedDistanceSets[0].Chars) > 0 && len(fo.FixedDistanceSets[0].Chars) <= 5) || fo.FixedDistanceSets[0].Range != nil) {
				return "opt"
			}
		}
	}
	if code.FcPrefix != nil {
		return "fc"
	}
	return "none"
}

// c03FactsMalformed checks the well-formedness the finder theorems assume of the published record
// (hypotheses hwf of finder_fixedSets_sound, nonempty/first of StringsFacts, hset of
// finder_literalAfterLoop_sound). "" = fine.
func c03FactsMalformed(code *syntax.Code) string {
	fo := code.FindOptimizations
	switch fo.FindMode {
	case syntax.LeadingStrings_LeftToRight, syntax.LeadingStrings_OrdinalIgnoreCase_LeftToRight:
		if len(fo.LeadingPrefixesRunes) == 0 {
			return "no prefixes"
		}
		for _, p := range fo.LeadingPrefixesRunes {
			if len(p) == 0 {
				return "empty prefix"
			}
			found := false
			for _, r := range fo.LeadingPrefixFirstRunes {
				found = found || r == p[0]
			}
			if !found {
				return fmt.Sprintf("first rune %q of a prefix is missing from LeadingPrefixFirstRunes", p[0])
			}
		}
	case syntax.LeadingSet_LeftToRight, syntax.FixedDistanceSets_LeftToRight:
		if len(fo.FixedDistanceSets) == 0 || fo.FixedDistanceSets[0].Set == nil {
			return "no fixed-distance set, or the first one without its CharSet"
		}
	case syntax.LiteralAfterLoop_LeftToRight:
		if fo.LiteralAfterLoop == nil || fo.LiteralAfterLoop.LoopNode == nil || fo.LiteralAfterLoop.LoopNode.Set == nil {
			return "literal-after-loop without its loop set"
		}
	case syntax.RequiredLandmarkChain_LeftToRight:
		if fo.LandmarkChain == nil || fo.LandmarkChain.LeadingLoopSet == nil || len(fo.LandmarkChain.Landmarks) == 0 {
			return "landmark chain without loop set or landmarks"
		}
	}
	if code.RightToLeft && c03FinderPath(code) == "opt" {
		return "a left-to-right helper selected for a right-to-left program"
	}
	return ""
}

// c03FinderLine renders the request for the Lean driver.
func c03FinderLine(code *syntax.Code, text []rune, textstart int) string {
	seen := map[rune]bool{}
	var alphabet []rune
	for _, r := range text {
		if !seen[r] {
			seen[r] = true
			alphabet = append(alphabet, r)
		}
	}
	fo := code.FindOptimizations
	var parts []string
	add := func(s string) { parts = append(parts, s) }
	add(core.S("rtl", core.SBool(code.RightToLeft)))
	add(core.S("anchors", core.SBool(code.Anchors&syntax.AnchorBeginning != 0), core.SBool(code.Anchors&syntax.AnchorStart != 0),
		core.SBool(code.Anchors&syntax.AnchorEndZ != 0), core.SBool(code.Anchors&syntax.AnchorEnd != 0)))
	if code.BmPrefix != nil {
		pat, ci := c03BmFields(code.BmPrefix)
		add(c03Runes("bm "+core.SBool(ci), pat))
	} else {
		add("(bm)")
	}
	add(core.S("mode", fo.FindMode.String()))
	add(core.S("minlen", fmt.Sprint(fo.MinRequiredLength)))
	add(c03Runes("prefix", []rune(fo.LeadingPrefix)))
	var pres []string
	for _, p := range fo.LeadingPrefixesRunes {
		pres = append(pres, core.SInts(p))
	}
	add(core.S("prefixes", pres...))
	add(c03Runes("firstrunes", fo.LeadingPrefixFirstRunes))
	add(core.S("fchar", fmt.Sprint(int(fo.FixedDistanceLiteral.C))))
	add(c03Runes("fstring", []rune(fo.FixedDistanceLiteral.S)))
	add(core.S("fdist", fmt.Sprint(fo.FixedDistanceLiteral.Distance)))
	var sets []string
	for _, s := range fo.FixedDistanceSets {
		rg := "(range)"
		if s.Range != nil {
			rg = fmt.Sprintf("(range %d %d)", s.Range.First, s.Range.Last)
		}
		sets = append(sets, core.S("set", c03Runes("chars", s.Chars), core.S("neg", core.SBool(s.Negated)), rg,
			core.S("mem", c03SetTbl(s.Set, alphabet)), core.S("dist", fmt.Sprint(s.Distance))))
	}
	add(core.S("sets", sets...))
	if l := fo.LiteralAfterLoop; l != nil {
		var loop *syntax.CharSet
		if l.LoopNode != nil {
			loop = l.LoopNode.Set
		}
		add(core.S("lal", c03Runes("str", []rune(l.String)), core.S("ci", core.SBool(l.StringIgnoreCase)), core.S("char", fmt.Sprint(int(l.Char))),
			c03Runes("chars", l.Chars), core.S("loop", c03SetTbl(loop, alphabet))))
	} else {
		add("(lal)")
	}
	if ch := fo.LandmarkChain; ch != nil {
		cs := []string{core.S("loop", c03SetTbl(ch.LeadingLoopSet, alphabet))}
		for _, lm := range ch.Landmarks {
			var alts []string
			for _, a := range lm.Alternatives {
				alts = append(alts, core.S("alt", c03Runes("lit", a.Literal), core.S("set", c03SetTbl(a.Set, alphabet)),
					core.S("lws", c03SetTbl(a.LeadingWhitespaceSet, alphabet)), core.S("tws", c03SetTbl(a.TrailingWhitespaceSet, alphabet)),
					core.S("min", fmt.Sprint(a.MinRepeat)), core.S("max", fmt.Sprint(a.MaxRepeat)),
					core.S("rb", core.SBool(a.RequireWhitespaceBefore)), core.S("ra", core.SBool(a.RequireWhitespaceAfter))))
			}
			cs = append(cs, core.S("lm", alts...))
		}
		add(core.S("chain", cs...))
	} else {
		add("(chain)")
	}
	if code.FcPrefix != nil {
		set := code.FcPrefix.PrefixSet
		if set.IsSingleton() {
			ch := set.SingletonChar()
			add(core.S("fc", c03Tbl(func(r rune) bool { return r == ch }, alphabet)))
		} else {
			add(core.S("fc", c03Tbl(set.CharIn, alphabet)))
		}
	} else {
		add("(fc x)")
	}
	var lower []string
	for _, r := range alphabet {
		if l := unicode.ToLower(r); l != r {
			lower = append(lower, fmt.Sprintf("(%d %d)", r, l))
		}
	}
	add(core.S("lower", lower...))
	add(c03Runes("text", text))
	add(core.S("textstart", fmt.Sprint(textstart)))
	return "(c03 (finder " + strings.Join(parts, " ") + "))"
}

// c03RealFinder calls the real finder from pos; a panic is returned as a value.
func c03RealFinder(re *regexp2.Regexp, text []rune, pos, textstart int) (ok bool, q int, panicked any) {
	defer func() {
		if r := recover(); r != nil {
			panicked = r
		}
	}()
	ok, q = regexp2.VerifFindFirstChar(re, text, pos, textstart)
	return ok, q, nil
}

func c03FindersCheck(c *core.Ctx, cases []engCase) []core.Outcome {
	outs := make([]core.Outcome, len(cases))
	cache := newEngCache()
	lines := make([]string, len(cases))
	goAns := make([]string, len(cases))
	tags := make([]string, len(cases))
	for i := range cases {
		cs := &cases[i]
		o := &outs[i]
		o.Key = fmt.Sprintf("%d|%v|%s|%s|%d", cs.Opts, cs.CodeGen, cs.Pattern, cs.str(), cs.Start)
		cp := cache.get(cs)
		if cp.err != nil {
			o.Buckets = append(o.Buckets, "compile-error")
			continue
		}
		re := cp.re
		code := regexp2.VerifCode(re)
		if code == nil || code.FindOptimizations == nil {
			o.Buckets = append(o.Buckets, "mode-not-modelled:no-find-optimizations")
			continue
		}
		text := cs.Text
		n := len(text)
		if cs.Start < 0 || cs.Start > n {
			continue
		}
		path := c03FinderPath(code)
		mode := code.FindOptimizations.FindMode.String()
		tag := path + ":" + mode
		if path == "anchors" && code.BmPrefix != nil {
			tag += "+bm"
		}
		tags[i] = tag
		var b strings.Builder
		fmt.Fprintf(&b, "(ok %s", path)
		minLen := code.FindOptimizations.MinRequiredLength
		for p := 0; p <= n; p++ {
			ok, q, pv := c03RealFinder(re, text, p, cs.Start)
			if pv != nil {
				// the scan loop applies the minimum-length cut-off before it calls the finder
				reachable := (!code.RightToLeft && n-p >= minLen) || (code.RightToLeft && p >= minLen)
				kind, key := "impl-violation", "C03:finder-panic:"+tag
				if !reachable {
					kind, key = "correspondence-break", "model:finder-panic-behind-cutoff:"+tag
				}
				o.Fail = &core.Failure{Kind: kind, Key: key,
					Summary:  fmt.Sprintf("the candidate finder panics: pattern %q opts %d codegen=%v input %q \\G origin %d position %d (reachable by the scan loop: %v)", cs.Pattern, cs.Opts, cs.CodeGen, cs.str(), cs.Start, p, reachable),
					Expected: "no panic", Got: fmt.Sprint(pv)}
				break
			}
			fmt.Fprintf(&b, " (%s %d)", core.SBool(ok), q)
		}
		if o.Fail != nil {
			continue
		}
		b.WriteByte(')')
		if why := c03FactsMalformed(code); why != "" {
			o.Fail = &core.Failure{Kind: "correspondence-break", Key: "model:facts-malformed:" + tag,
				Summary:  fmt.Sprintf("the published record violates a well-formedness assumption of the finder theorems: pattern %q opts %d codegen=%v: %s", cs.Pattern, cs.Opts, cs.CodeGen, why),
				Expected: "well-formed FindOptimizations", Got: why}
			continue
		}
		goAns[i] = b.String()
		lines[i] = c03FinderLine(code, text, cs.Start)
		o.Nontrivial = n > 0
		o.Buckets = append(o.Buckets, "finder="+tag)
		if code.FindOptimizations.FindMode == syntax.RequiredLandmarkChain_LeftToRight && path == "opt" {
			o.Buckets = append(o.Buckets, "modelled-not-proved:RequiredLandmarkChain_LeftToRight")
		}
	}
	var idx []int
	var send []string
	for i := range cases {
		if lines[i] != "" {
			idx = append(idx, i)
			send = append(send, lines[i])
		}
	}
	res, err := c.RunDriver(send)
	if err != nil {
		for i := range outs {
			if outs[i].Fail == nil {
				outs[i].Fail = core.DriverFailure(err)
				break
			}
		}
		return outs
	}
	for k, i := range idx {
		if res[k] == goAns[i] {
			continue
		}
		cs := &cases[i]
		key := "model:finder:" + tags[i]
		if !strings.HasPrefix(res[k], "(ok "+strings.SplitN(tags[i], ":", 2)[0]+" ") {
			key = "model:finder-dispatch:" + tags[i]
		}
		outs[i].Fail = &core.Failure{Kind: "correspondence-break", Key: key,
			Summary:  fmt.Sprintf("findFirstChar differs from its model (Model/Finders.lean): pattern %q opts %d codegen=%v input %q \\G origin %d; answer = (ok path (found position)… from every position 0..len)", cs.Pattern, cs.Opts, cs.CodeGen, cs.str(), cs.Start),
			Expected: res[k], Got: goAns[i]}
	}
	return outs
}

// fmGen: the engine generator with the \G origin moved off its default in half of the cases (the origin
// only matters to the Start anchor bit, which the default origins — 0, or the end right-to-left — hide).
func fmGen(g *engGen) func(rng *rand.Rand, i int) engCase {
	return func(rng *rand.Rand, i int) engCase {
		c := g.next(rng, i)
		if rng.Intn(2) == 0 {
			c.Start = rng.Intn(len(c.Text) + 1)
		}
		return c
	}
}

// fmCorpus: hand-made cases for the paths the random stream reaches rarely.
var fmCorpus = func() []engCase {
	R := func(s string) []rune { return []rune(s) }
	rtl, ci := int32(regexp2.RightToLeft), int32(regexp2.IgnoreCase)
	cs := []engCase{
		{Pattern: `abc$`, Opts: rtl, Text: R("xabc\n"), Start: 5}, // \Z's second position, right-to-left, with a Boyer-Moore prefix
		{Pattern: `abc\Z`, Opts: rtl, Text: R("xabc\n"), Start: 4},
		{Pattern: `\Gab`, Text: R("abab"), Start: 2},               // behind and at the \G origin
		{Pattern: `ab\z`, Text: R("xxab")},                         // trailing anchor, fixed length
		{Pattern: `(?:ab|xy)c`, CodeGen: true, Text: R("zabcxyc")}, // several leading strings
		{Pattern: `(?:ab|xy)c`, Opts: ci, CodeGen: true, Text: R("zaBcXyc")},
		{Pattern: `[ab]x..`, Text: R("bxa")},          // shorter than the minimum length
		{Pattern: `\w+@x`, Text: R("ab@x @x")},        // literal after a leading loop
		{Pattern: `..a`, Text: R("bbabba")},           // one character at a fixed distance
		{Pattern: `\s+a(?:bc|x|b)c`, Text: R(" abc")}, // landmark chain
		// D44: a set core that overlaps the whitespace required after it gives repetitions back
		{Pattern: `[xy]*([a ]{1,2}\s+)c(d)`, Text: R("a cd")},
		{Pattern: `[xy]*([a ]{1,2}\s+)c(d)`, Text: R("xa cd")},
		{Pattern: `[xy]*([a\t]{1,2}\s+)c(d)`, Text: R("a\tcd")},
		{Pattern: `[xy]*(?:[a ]{1,2}\s+|q)c(d)`, Text: R("a cd")},
		{Pattern: `[xy]*([a ]{2,3}\s+)c(d)`, Text: R("xa  cd a cd")},
		// D43: U+FFFF in a Boyer-Moore prefix
		{Pattern: "\uFFFFa", Text: R("x\uffffa")},
		{Pattern: "a\uFFFF", Opts: rtl, Text: R("a\uffffx"), Start: 3},
		{Pattern: `Ab`, Opts: ci, Text: R("xaBK")},
		{Pattern: `ab`, Opts: rtl, Text: R("abxab"), Start: 5},
		// every anchor bit in both directions, with the \G origin inside the input
		{Pattern: `ab\G`, Opts: rtl, Text: R("ababab"), Start: 4},
		{Pattern: `\w\G`, Opts: rtl, Text: R("ababab"), Start: 2},
		{Pattern: `\Gab`, Text: R("ababab"), Start: 4},
		{Pattern: `\G\w`, Text: R("ababab"), Start: 3},
		{Pattern: `ab\A`, Opts: rtl, Text: R("abab"), Start: 4},
		{Pattern: `\Aab`, Text: R("abab"), Start: 1},
		{Pattern: `ab\z`, Opts: rtl, Text: R("abab\n"), Start: 5},
		{Pattern: `\w\Z`, Opts: rtl, Text: R("abab\n"), Start: 5},
		{Pattern: `\w\Z`, Opts: rtl, Text: R("abab\n\n"), Start: 6},
		{Pattern: `\Z\n`, Text: R("ab\n")},
		{Pattern: `\z`, Text: R("ab\n")},
	}
	for i := range cs {
		cs[i].Source = "corpus"
	}
	return cs
}()

// fmDirected: small-scope exhaustive inputs for patterns chosen to reach every path and helper of the
// finder: all inputs up to maxLen over a few runes taken from the pattern (plus one foreign rune), for
// \G patterns with every origin.
func fmDirected(maxLen int) []engCase {
	rtl, ci := int32(regexp2.RightToLeft), int32(regexp2.IgnoreCase)
	type d struct {
		pat      string
		opts     int32
		cg       bool
		alphabet string
		origins  bool
	}
	ds := []d{
		{`(?:abc|xyc|ac)`, 0, true, "abcxy", false}, // LeadingStrings_LeftToRight (skipping path)
		{`(?:ab|xy)c`, ci, true, "aBcX", false},     // LeadingStrings_OrdinalIgnoreCase
		{`[ab][cd]`, 0, true, "abcd", false},        // LeadingStrings (two-rune prefixes)
		{`..ab`, 0, false, "abx", false},            // FixedDistanceString
		{`..a`, 0, false, "ab", false},              // FixedDistanceChar
		{`a+b`, 0, false, "abx", false},             // FixedDistanceChar at distance 1
		{`[ab]x..`, 0, false, "abx", false},         // FixedDistanceSets
		{`.[ab]c`, 0, false, "abcx", false},         // FixedDistanceSets, primary at distance > 0
		{`\d\w`, 0, false, "a1 _", false},           // FixedDistanceSets over general sets
		{`[ab]\w`, rtl, false, "ab1 ", false},       // LeadingSet_RightToLeft (first-character loop)
		{`\d\w`, rtl, false, "a1 _", false},
		{`\w+@x`, 0, false, "a@x ", false},            // LiteralAfterLoop, string literal
		{`[a-c]+x`, 0, false, "ax ", false},           // LiteralAfterLoop, char literal
		{`\w+@x`, ci, false, "a@X ", false},           // RequiredLandmarkChain
		{`\s+a(?:bc|x|b)c`, 0, false, " abcx", false}, // RequiredLandmarkChain with alternatives
		{`ab`, 0, false, "abx", false},                // Boyer-Moore scan
		{`ab`, rtl, false, "abx", false},
		{`aab`, 0, false, "ab", false},
		{`aba`, rtl, false, "ab", false},
		{`Ab`, ci, false, "aAbB", false},                // LeadingString_OrdinalIgnoreCase (ASCII folding)
		{`\u00e9a`, ci, false, "\u00e9\u00c9aA", false}, // … through unicode.ToLower
		{`k[ab]`, ci, false, "kK\u212aa", false},        // Kelvin sign
		{`ab\z`, 0, false, "ab\n", false},               // anchors …
		{`ab\z`, ci, false, "aB\n", false},              // TrailingAnchor_FixedLength_End helper
		{`ab\Z`, 0, false, "ab\n", false},
		{`ab\z`, rtl, false, "ab\n", false},
		{`ab\Z`, rtl, false, "ab\n", false},
		{`a+$`, rtl, false, "ab\n", false},
		{`\w\Z`, rtl, false, "a\n", false},
		{`\Z\n`, 0, false, "a\n", false},
		{`\z`, 0, false, "a\n", false},
		{`\Aab`, 0, false, "abx", false},
		{`ab\A`, rtl, false, "abx", false},
		{`\Gab`, 0, false, "ab", true},
		{`\G\w`, 0, false, "a ", true},
		{`ab\G`, rtl, false, "ab", true},
		{`\w\G`, rtl, false, "a ", true},
		{`\w*`, 0, false, "a ", false}, // nothing to search for
	}
	var out []engCase
	for _, x := range ds {
		al := []rune(x.alphabet)
		var texts [][]rune
		var rec func(cur []rune)
		rec = func(cur []rune) {
			texts = append(texts, append([]rune(nil), cur...))
			if len(cur) == maxLen {
				return
			}
			for _, r := range al {
				rec(append(cur, r))
			}
		}
		rec(nil)
		for _, t := range texts {
			starts := []int{0}
			if x.opts&rtl != 0 {
				starts = []int{len(t)}
			}
			if x.origins {
				starts = starts[:0]
				for s := 0; s <= len(t); s++ {
					starts = append(starts, s)
				}
			}
			for _, s := range starts {
				out = append(out, engCase{Pattern: x.pat, Opts: x.opts, CodeGen: x.cg, Text: t, Start: s, Source: "directed"})
			}
		}
	}
	return out
}
