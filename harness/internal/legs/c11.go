package legs

import (
	"bytes"
	"encoding/json"
	"fmt"
	"math/rand"
	"os"
	"os/exec"
	"path/filepath"
	"regexp"
	"strings"

	"rvharness/internal/callmix"
	"rvharness/internal/core"

	regexp2 "github.com/dlclark/regexp2/v2"
)

// C11 — Concurrent use of a Regexp equals sequential use (partial: the scheduler and the memory
// model are explored, not proved).
//
// Leg S: in-process concurrent runs (no race detector), results against the precomputed results of
// the same calls alone. Leg R: the same workload in a `go build -race` binary run as a subprocess;
// every "WARNING: DATA RACE" block is a failure.

type c11Case struct {
	callmix.ConcConfig
}

func c11Gen(rng *rand.Rand, i int) c11Case {
	return c11Case{callmix.ConcConfig{
		Seed: rng.Int63n(1 << 40), G: []int{2, 4, 8}[i%3], K: 30 + rng.Intn(30),
		Procs: []int{1, 2, 4, 8}[rng.Intn(4)], Yield: rng.Intn(2) == 0, TimeoutMs: 200, FailBias: i%4 == 1,
	}}
}

func c11Outcome(cs c11Case, rep callmix.ConcReport, o *core.Outcome) {
	o.Key = fmt.Sprintf("%d/%d/%d/%d/%v", cs.Seed, cs.G, cs.K, cs.Procs, cs.Yield)
	o.Nontrivial = cs.G >= 2 && cs.K >= 2
	o.Buckets = append(o.Buckets, fmt.Sprintf("G=%d", cs.G), fmt.Sprintf("GOMAXPROCS=%d", cs.Procs), fmt.Sprintf("yield=%v", cs.Yield))
	for k, v := range rep.Buckets {
		for j := 0; j < v; j++ {
			o.Buckets = append(o.Buckets, "call:"+k)
		}
	}
	for j := 0; j < rep.Inconclusive; j++ {
		o.Buckets = append(o.Buckets, "inconclusive:timed-spec-timed-out-under-load")
	}
	if len(rep.Mismatches) > 0 {
		m := rep.Mismatches[0]
		o.Fail = &core.Failure{
			Kind: "impl-violation", Key: "concurrent-result-differs:" + m.Step.Op + ":" + callmix.Specs[m.Step.Re].Name,
			Summary:  fmt.Sprintf("goroutine %d call %d (%s on %s, shared=%v) returned something else than alone; %d mismatches in the run", m.Goroutine, m.Index, m.Step.Op, callmix.Specs[m.Step.Re].Name, m.Shared, len(rep.Mismatches)),
			Expected: m.Want, Got: m.Got,
		}
		return
	}
	if len(rep.Snapshot) > 0 {
		o.Fail = &core.Failure{Kind: "impl-violation", Key: "runner-not-reset-after-concurrent-run", Summary: "pooled interpreter state of a shared Regexp violates the reset invariant after the run", Expected: "CodeIsMain && RuntextNil && MatchTextNil", Got: strings.Join(rep.Snapshot, "; ")}
	}
}

func c11CheckInProcess(c *core.Ctx, cases []c11Case) []core.Outcome {
	outs := make([]core.Outcome, len(cases))
	for i, cs := range cases {
		c11Outcome(cs, callmix.RunConcurrent(cs.ConcConfig), &outs[i])
	}
	return outs
}

// race binary --------------------------------------------------------------------------------------

// verifRoot finds the directory that contains harness/go.mod, walking up from the executable.
func verifRoot() (string, error) {
	if r := os.Getenv("VERIF_ROOT"); r != "" {
		return r, nil
	}
	exe, err := os.Executable()
	if err != nil {
		return "", err
	}
	d := filepath.Dir(exe)
	for i := 0; i < 6; i++ {
		if _, err := os.Stat(filepath.Join(d, "harness", "go.mod")); err == nil {
			return d, nil
		}
		d = filepath.Dir(d)
	}
	if wd, err := os.Getwd(); err == nil {
		if _, err := os.Stat(filepath.Join(wd, "harness", "go.mod")); err == nil {
			return wd, nil
		}
	}
	return "", fmt.Errorf("cannot locate the harness sources from %s", exe)
}

// buildRaceBinary builds cmd/rvrace with the race detector against the repository under test.
func buildRaceBinary() (string, error) {
	root, err := verifRoot()
	if err != nil {
		return "", err
	}
	build := filepath.Join(root, ".build")
	if err := os.MkdirAll(build, 0o755); err != nil {
		return "", err
	}
	args := []string{"build", "-race", "-tags", "verif"}
	repo := os.Getenv("VERIF_REPO")
	if repo != "" {
		if abs, err := filepath.Abs(repo); err == nil && abs != "/repo" {
			mod, err := os.ReadFile(filepath.Join(root, "harness", "go.mod"))
			if err != nil {
				return "", err
			}
			alt := filepath.Join(build, fmt.Sprintf("go.race.%d.mod", os.Getpid()))
			if err := os.WriteFile(alt, bytes.ReplaceAll(mod, []byte("=> /repo"), []byte("=> "+abs)), 0o644); err != nil {
				return "", err
			}
			defer os.Remove(alt)
			defer os.Remove(strings.TrimSuffix(alt, ".mod") + ".sum")
			args = append(args, "-modfile="+alt)
		}
	}
	out := filepath.Join(build, fmt.Sprintf("rvrace.%d", os.Getpid()))
	args = append(args, "-o", out, "./cmd/rvrace")
	cmd := exec.Command("go", args...)
	cmd.Dir = filepath.Join(root, "harness")
	env := []string{}
	for _, e := range os.Environ() {
		if strings.HasPrefix(e, "GOSUMDB=") || strings.HasPrefix(e, "GOTOOLCHAIN=") || strings.HasPrefix(e, "CGO_ENABLED=") || strings.HasPrefix(e, "GOFLAGS=") || strings.HasPrefix(e, "GOPROXY=") {
			continue
		}
		env = append(env, e)
	}
	cmd.Env = append(env, "CGO_ENABLED=1", "GOFLAGS=-mod=mod", "GOPROXY=off")
	if b, err := cmd.CombinedOutput(); err != nil {
		return "", fmt.Errorf("go build -race failed: %v: %s", err, lastBytes(string(b), 1500))
	}
	final := filepath.Join(build, "rvrace")
	if err := os.Rename(out, final); err != nil {
		return out, nil
	}
	return final, nil
}

func lastBytes(s string, n int) string {
	if len(s) > n {
		return s[len(s)-n:]
	}
	return s
}

var raceFrame = regexp.MustCompile(`(?m)^  ([^\s()]+(?:\([^)]*\))?[^\s()]*)\(\)\n\s+(\S+):(\d+)`)

// raceKey extracts a stable key from one race report: the innermost frames of the two accesses.
func raceKey(block string) (string, string) {
	var fns []string
	parts := strings.Split(block, "\n\n")
	for _, p := range parts {
		if !(strings.Contains(p, " at 0x") && (strings.Contains(p, "rite") || strings.Contains(p, "ead"))) {
			continue
		}
		for _, m := range raceFrame.FindAllStringSubmatch(p, -1) {
			fn := m[1]
			if strings.HasPrefix(fn, "runtime.") || strings.HasPrefix(fn, "sync.") || strings.HasPrefix(fn, "sync/atomic.") {
				continue
			}
			if i := strings.LastIndex(fn, "/"); i >= 0 {
				fn = fn[i+1:]
			}
			fns = append(fns, fn+"@"+filepath.Base(m[2]))
			break
		}
	}
	if len(fns) == 0 {
		return "race:unparsed", "data race (frames not parsed)"
	}
	return "race:" + strings.Join(fns, "<>"), "data race between " + strings.Join(fns, " and ")
}

func c11CheckRace(bin string) func(c *core.Ctx, cases []c11Case) []core.Outcome {
	return func(c *core.Ctx, cases []c11Case) []core.Outcome {
		outs := make([]core.Outcome, len(cases))
		for i, cs := range cases {
			o := &outs[i]
			arg, _ := json.Marshal(cs.ConcConfig)
			cmd := exec.Command(bin, string(arg))
			var stdout, stderr bytes.Buffer
			cmd.Stdout, cmd.Stderr = &stdout, &stderr
			cmd.Env = append(os.Environ(), "GORACE=halt_on_error=0 exitcode=0 history_size=3")
			err := cmd.Run()
			var rep callmix.ConcReport
			if jerr := json.Unmarshal(bytes.TrimSpace(stdout.Bytes()), &rep); err != nil || jerr != nil {
				o.Key = fmt.Sprint(cs.Seed)
				o.Fail = &core.Failure{Kind: "correspondence-break", Key: "race-binary-run", Summary: fmt.Sprintf("the race-detector binary did not complete: %v %v", err, jerr), Got: lastBytes(stderr.String(), 1500)}
				continue
			}
			c11Outcome(cs, rep, o)
			if o.Fail != nil {
				continue
			}
			if idx := strings.Index(stderr.String(), "WARNING: DATA RACE"); idx >= 0 {
				block := stderr.String()[idx:]
				if e := strings.Index(block, "=================="); e > 0 {
					block = block[:e]
				}
				key, sum := raceKey(block)
				n := strings.Count(stderr.String(), "WARNING: DATA RACE")
				o.Fail = &core.Failure{Kind: "impl-violation", Key: key, Summary: fmt.Sprintf("%s (%d race reports in the run)", sum, n), Expected: "no data race", Got: lastBytes(block, 3000)}
			} else {
				o.Buckets = append(o.Buckets, "race-detector:clean")
			}
		}
		return outs
	}
}

func init() {
	core.Register("C11", func(c *core.Ctx) {
		regexp2.SetTimeoutCheckPeriod(callmix.ClockPeriod)
		rule := "one case = one concurrent run: G in {2,4,8} goroutines x K in 30..59 calls drawn from the C12 call mix (11 entry points, 18 Regexps incl. balancing, bool-only-eligible, stack-limited, timed (200ms), RTL; 43 replacements; inputs around the 1K/4K/16K pool classes), 2/3 of the calls on Regexps shared by all goroutines, 1/3 on goroutine-private Regexps that share only the global pools and the clock; GOMAXPROCS in {1,2,4,8}; every 4th run interleaves Replace calls that fail in their first scan (stack limit) with calls on same-size-class inputs that differ per goroutine; runtime.Gosched() before a third of the calls in half of the runs; oracle: every call's canonical result equals the precomputed result of the same call alone (isolated Regexp), and the shared Regexps' pooled runners satisfy the reset invariant afterwards. Non-trivial = at least 2 goroutines with at least 2 calls"
		core.RunLeg(c, core.Leg[c11Case]{
			Name: "S", Kind: "oracle", Rule: rule + " — in-process, no race detector",
			N: c.N(12, 400), Gen: c11Gen, Check: c11CheckInProcess, Batch: 12,
		})
		// simultaneous timed matches on the shared clock (leg B of C14): each returns what it returns alone
		c14BurstLeg(c)
		c14SchedLeg(c)
		regexp2.SetTimeoutCheckPeriod(callmix.ClockPeriod)
		bin, err := buildRaceBinary()
		if err != nil {
			c.Result.Notes = append(c.Result.Notes, "C11: race-detector binary not available, leg R skipped: "+err.Error())
			return
		}
		core.RunLeg(c, core.Leg[c11Case]{
			Name: "R", Kind: "oracle", Rule: rule + " — in a `go build -race` binary (subprocess); additionally no \"WARNING: DATA RACE\" report; inputs capped at 20000 bytes",
			N: c.N(3, 90), Check: c11CheckRace(bin), Batch: 6,
			Gen: func(rng *rand.Rand, i int) c11Case {
				cs := c11Gen(rng, i)
				cs.MaxLen = 20000
				cs.K = 20 + rng.Intn(20)
				return cs
			},
		})
	})
}
