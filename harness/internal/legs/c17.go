package legs

import (
	"fmt"
	"math/rand"
	"sort"
	"strconv"
	"strings"

	"rvharness/internal/core"

	regexp2 "github.com/dlclark/regexp2/v2"
	"github.com/dlclark/regexp2/v2/syntax"
)

// C17 — Group numbers and names form one consistent map.
//
// A case is the list of group-opening events of a pattern, in the order of their opening
// parentheses.  Every group wraps its own letter (event i wraps 'a'+i), so that on the subject
// "abc…" the text of a capture identifies the group that made it.

type c17Ev struct {
	K    string `json:"k"`              // u unnamed | n named | k explicitly numbered | x non-capturing
	Name string `json:"name,omitempty"` // for n
	Num  int    `json:"num,omitempty"`  // for k
	Up   int    `json:"up,omitempty"`   // open groups closed before this one opens (nesting shape)
	Sp   int    `json:"sp,omitempty"`   // spelling: 0 (?<..>  1 (?'..'  2 (?P<..> (RE2 only)  3 (?<0k> (numbered, leading zero)
	Bal  string `json:"bal,omitempty"`  // balancing group (?<name-Bal> : text oracles are skipped for the case
}

type c17Case struct {
	Evs  []c17Ev `json:"evs"`
	Mco  bool    `json:"mco,omitempty"`  // OptionMaintainCaptureOrder
	Ecma bool    `json:"ecma,omitempty"` // ECMAScript
	Re2  bool    `json:"re2,omitempty"`  // RE2
	N    bool    `json:"n,omitempty"`    // ExplicitCapture
}

func (cs c17Case) mode() string {
	var p []string
	if cs.Mco {
		p = append(p, "mco")
	}
	if cs.Ecma {
		p = append(p, "ecma")
	}
	if cs.Re2 {
		p = append(p, "re2")
	}
	if cs.N {
		p = append(p, "n")
	}
	if len(p) == 0 {
		return "default"
	}
	return strings.Join(p, "+")
}

func (cs c17Case) opts() []regexp2.CompileOption {
	var ro regexp2.RegexOptions
	if cs.Ecma {
		ro |= regexp2.ECMAScript
	}
	if cs.Re2 {
		ro |= regexp2.RE2
	}
	if cs.N {
		ro |= regexp2.ExplicitCapture
	}
	o := []regexp2.CompileOption{ro}
	if cs.Mco {
		o = append(o, regexp2.OptionMaintainCaptureOrder())
	}
	return o
}

func c17Lit(i int) string { return string(rune('a' + i)) }

// pattern, subject and the subject text of every group (event i spans letters i..end[i]-1)
func (cs c17Case) print() (pat, text string, span []string) {
	var sb strings.Builder
	n := len(cs.Evs)
	end := make([]int, n)
	var stack []int
	closeOne := func(at int) {
		top := stack[len(stack)-1]
		stack = stack[:len(stack)-1]
		end[top] = at
		if e := cs.Evs[top]; e.K == "x" && e.Sp >= 4 {
			sb.WriteString("|(?!)") // the conditional's other branch never matches
		}
		sb.WriteByte(')')
	}
	for i, e := range cs.Evs {
		for u := 0; u < e.Up && len(stack) > 0; u++ {
			closeOne(i)
		}
		switch e.K {
		case "u":
			sb.WriteString("(")
		case "x":
			switch e.Sp {
			case 4: // a conditional whose condition is a lookahead (true here): its yes-branch is the group's content
				sb.WriteString("(?(?=" + c17Lit(i) + ")")
			case 5: // … a negative lookbehind for a character the subject never contains
				sb.WriteString("(?(?<!#)")
			default:
				sb.WriteString("(?:")
			}
		case "n", "k":
			id := e.Name
			if e.K == "k" {
				id = strconv.Itoa(e.Num)
				if e.Sp == 3 {
					id = "0" + id
				}
			}
			if e.Bal != "" {
				id += "-" + e.Bal
			}
			switch {
			case e.Sp == 1:
				sb.WriteString("(?'" + id + "'")
			case e.Sp == 2 && e.K == "n":
				sb.WriteString("(?P<" + id + ">")
			default:
				sb.WriteString("(?<" + id + ">")
			}
		}
		sb.WriteString(c17Lit(i))
		stack = append(stack, i)
		text += c17Lit(i)
	}
	for len(stack) > 0 {
		closeOne(n)
	}
	span = make([]string, n)
	for i := range cs.Evs {
		span[i] = text[i:end[i]]
	}
	return sb.String(), text, span
}

// printOpt is print with every top-level group made optional (`…)?`); top[i] is the top-level event that
// encloses event i (itself for a top-level one).  Letters are unique, so the subject without the text of
// one top-level group can only be matched with exactly that group (and everything in it) not participating.
func (cs c17Case) printOpt() (pat string, top []int) {
	var sb strings.Builder
	n := len(cs.Evs)
	top = make([]int, n)
	var stack []int
	closeOne := func() {
		if e := cs.Evs[stack[len(stack)-1]]; e.K == "x" && e.Sp >= 4 {
			sb.WriteString("|(?!)")
		}
		stack = stack[:len(stack)-1]
		sb.WriteByte(')')
		if len(stack) == 0 {
			sb.WriteByte('?')
		}
	}
	for i, e := range cs.Evs {
		for u := 0; u < e.Up && len(stack) > 0; u++ {
			closeOne()
		}
		switch e.K {
		case "u":
			sb.WriteString("(")
		case "x":
			switch e.Sp {
			case 4: // a conditional whose condition is a lookahead (true here): its yes-branch is the group's content
				sb.WriteString("(?(?=" + c17Lit(i) + ")")
			case 5: // … a negative lookbehind for a character the subject never contains
				sb.WriteString("(?(?<!#)")
			default:
				sb.WriteString("(?:")
			}
		case "n", "k":
			id := e.Name
			if e.K == "k" {
				id = strconv.Itoa(e.Num)
				if e.Sp == 3 {
					id = "0" + id
				}
			}
			switch {
			case e.Sp == 1:
				sb.WriteString("(?'" + id + "'")
			case e.Sp == 2 && e.K == "n":
				sb.WriteString("(?P<" + id + ">")
			default:
				sb.WriteString("(?<" + id + ">")
			}
		}
		sb.WriteString(c17Lit(i))
		stack = append(stack, i)
		top[i] = stack[0]
	}
	for len(stack) > 0 {
		closeOne()
	}
	return sb.String(), top
}

// closing rank of every event: the group that closes later makes the later capture
func (cs c17Case) closeRank() []int {
	n := len(cs.Evs)
	rank := make([]int, n)
	var stack []int
	r := 0
	for i, e := range cs.Evs {
		for u := 0; u < e.Up && len(stack) > 0; u++ {
			rank[stack[len(stack)-1]] = r
			r++
			stack = stack[:len(stack)-1]
		}
		stack = append(stack, i)
	}
	for len(stack) > 0 {
		rank[stack[len(stack)-1]] = r
		r++
		stack = stack[:len(stack)-1]
	}
	return rank
}

var c17Names = []string{"x", "y", "z", "x1", "_1", "n2", "A", "é", "٣", "１２", "k", "P"}
var c17EcmaNames = []string{"x", "y", "z", "x1", "_1", "$a", "A", "é", "k"}

func c17Gen(rng *rand.Rand, i int) c17Case {
	var cs c17Case
	switch rng.Intn(12) {
	case 0, 1, 2:
	case 3, 4:
		cs.Mco = true
	case 5, 6:
		cs.Ecma = true
	case 7, 8:
		cs.Re2 = true
	case 9:
		cs.N = true
	case 10:
		cs.N = true
		switch rng.Intn(3) {
		case 0:
			cs.Mco = true
		case 1:
			cs.Re2 = true
		case 2:
			cs.Ecma = true
		}
	case 11:
		cs.Re2, cs.Mco = true, true
	}
	n := 1 + rng.Intn(7)
	if rng.Intn(10) == 0 {
		n = 8 + rng.Intn(8)
	}
	pool := c17Names
	if cs.Ecma {
		pool = c17EcmaNames
	}
	npool := 1 + rng.Intn(4) // few names per case: duplicates are likely
	off := rng.Intn(len(pool))
	numberedOK := !cs.Ecma
	if cs.Ecma && rng.Intn(25) == 0 {
		numberedOK = true
	}
	dupOK := !cs.Ecma || rng.Intn(15) == 0
	bal := !cs.Ecma && rng.Intn(12) == 0
	used := map[string]bool{}
	depth := 0
	for j := 0; j < n; j++ {
		var e c17Ev
		if depth > 0 {
			switch rng.Intn(3) {
			case 0: // nest
			case 1:
				e.Up = 1
			case 2:
				e.Up = 1 + rng.Intn(depth)
			}
		}
		depth = depth - e.Up + 1
		switch r := rng.Intn(10); {
		case r < 3:
			e.K = "u"
		case r < 6:
			e.K = "n"
			e.Name = pool[(off+rng.Intn(npool))%len(pool)]
			if used[e.Name] && !dupOK {
				for _, nm := range pool {
					if !used[nm] {
						e.Name = nm
						break
					}
				}
			}
			used[e.Name] = true
			e.Sp = rng.Intn(2)
			if cs.Re2 && rng.Intn(2) == 0 {
				e.Sp = 2
			}
			if cs.Ecma && rng.Intn(4) != 0 {
				e.Sp = 0
			}
		case r < 8 && numberedOK:
			e.K = "k"
			switch rng.Intn(4) {
			case 0:
				e.Num = 1 + rng.Intn(3)
			case 1:
				e.Num = 1 + rng.Intn(n+1)
			case 2:
				e.Num = 1 + rng.Intn(12)
			default:
				e.Num = []int{2, 5, 7, 10, 11, 20, 99, 100, 1000}[rng.Intn(9)]
			}
			e.Sp = rng.Intn(2)
			if rng.Intn(8) == 0 {
				e.Sp = 3
			}
		case r < 9:
			e.K = "x"
			if !cs.Re2 && !cs.Ecma && rng.Intn(3) == 0 {
				e.Sp = 4 + rng.Intn(2)
			}
		default:
			e.K = "u"
		}
		cs.Evs = append(cs.Evs, e)
	}
	if bal {
		// turn one named/numbered group into a balancing group that refers to a group defined by an
		// explicit name or number somewhere in the pattern
		var refs []string
		for _, e := range cs.Evs {
			if e.K == "n" {
				refs = append(refs, e.Name)
			} else if e.K == "k" && e.Sp != 3 && !cs.Mco {
				// (in pattern-order mode a number after the '-' still means the slot with that number,
				// which need not exist: only names are used as references there)
				refs = append(refs, strconv.Itoa(e.Num))
			}
		}
		for j := range cs.Evs {
			if (cs.Evs[j].K == "n" || cs.Evs[j].K == "k") && cs.Evs[j].Sp != 2 && len(refs) > 0 && rng.Intn(2) == 0 {
				cs.Evs[j].Bal = refs[rng.Intn(len(refs))]
				break
			}
		}
	}
	return cs
}

// the documented numbering rule, written down independently of the parser's algorithm: which
// number designates event i (-1: not capturing), and the number of every explicit name.
// A number written with leading zeros is the same number.  In pattern-order mode an explicitly
// numbered group (?<k>…) is booked in pattern order under the name "k" (fix 4579bd8).
// ok=false when the rule says nothing definite (balancing groups, numbered groups under ECMAScript).
func c17Spec(cs c17Case) (evNum []int, nameNum map[string]int, ok bool) {
	evNum = make([]int, len(cs.Evs))
	nameNum = map[string]int{}
	ok = true
	for _, e := range cs.Evs {
		if e.Bal != "" || (e.K == "k" && cs.Ecma) {
			ok = false
		}
	}
	if cs.Mco || cs.Ecma {
		next := 1
		for i, e := range cs.Evs {
			switch {
			case e.K == "u" && !cs.N:
				evNum[i] = next
				next++
			case e.K == "n" || e.K == "k":
				nm := e.Name
				if e.K == "k" {
					nm = strconv.Itoa(e.Num)
				}
				if v, seen := nameNum[nm]; seen {
					evNum[i] = v
				} else {
					nameNum[nm] = next
					evNum[i] = next
					next++
				}
			default:
				evNum[i] = -1
			}
		}
		return
	}
	taken := map[int]bool{0: true}
	u := 0
	for i, e := range cs.Evs {
		switch {
		case e.K == "u" && !cs.N:
			u++
			evNum[i] = u
			taken[u] = true
		case e.K == "k":
			evNum[i] = e.Num
			taken[e.Num] = true
		default:
			evNum[i] = -1
		}
	}
	next := u + 1
	for i, e := range cs.Evs {
		if e.K != "n" {
			continue
		}
		if v, seen := nameNum[e.Name]; seen {
			evNum[i] = v
			continue
		}
		for taken[next] {
			next++
		}
		nameNum[e.Name] = next
		evNum[i] = next
		taken[next] = true
		next++
	}
	return
}

type c17Obs struct {
	err    string
	names  []string
	nums   []int
	caps   map[int]int
	capsz  int
	evNum  []int // observed through capture texts; nil when not observable
	captop int
}

func c17Fail(kind, key, summary, exp, got string) *core.Failure {
	return &core.Failure{Kind: kind, Key: key, Summary: summary, Expected: exp, Got: got}
}

// c17Oracle runs the cross-API checks on the real engine and returns what it observed.
func c17Oracle(cs c17Case) (obs c17Obs, fail *core.Failure, buckets []string) {
	pat, text, span := cs.print()
	mode := cs.mode()
	buckets = append(buckets, "mode:"+mode)
	specEv, specName, specOK := c17Spec(cs)
	hasBal, hasLead0, hasNum, dup := false, false, false, false
	seenName := map[string]bool{}
	for _, e := range cs.Evs {
		hasBal = hasBal || e.Bal != ""
		hasLead0 = hasLead0 || (e.K == "k" && e.Sp == 3)
		hasNum = hasNum || e.K == "k"
		if e.K == "n" {
			dup = dup || seenName[e.Name]
			seenName[e.Name] = true
		}
	}
	if hasBal {
		buckets = append(buckets, "balancing")
	}
	if dup {
		buckets = append(buckets, "duplicate-names")
	}
	if hasNum {
		buckets = append(buckets, "explicit-numbers")
	}
	bad := func(key, summary, exp, got string) {
		if fail == nil {
			fail = c17Fail("impl-violation", key, "["+mode+"] "+pat+": "+summary, exp, got)
		}
	}
	const zonePrefix = ""
	defer func() {
		if r := recover(); r != nil {
			fail = c17Fail("impl-violation", zonePrefix+"panic", "["+mode+"] "+pat+": the engine panicked", "no panic", fmt.Sprint(r))
		}
	}()
	re, err := regexp2.Compile(pat, cs.opts()...)
	if err != nil {
		obs.err = err.Error()
		buckets = append(buckets, "compile-error")
		switch {
		case cs.Ecma && (dup || hasNum): // documented: ECMAScript has neither duplicate names nor numbered groups
		case hasBal: // left to the model correspondence
		default:
			bad("compile-error", "pattern does not compile", "compiles", obs.err)
		}
		return
	}
	if cs.Ecma && (dup || hasNum) {
		bad("ecma-accepts", "ECMAScript accepted a duplicate name or a numbered group", "error", "compiled")
	}
	code := regexp2.VerifCode(re)
	obs.names, obs.nums, obs.caps, obs.capsz = re.GetGroupNames(), re.GetGroupNumbers(), code.Caps, code.Capsize
	names, nums := obs.names, obs.nums
	sparse := len(nums) > 0 && nums[len(nums)-1] != len(nums)-1
	if sparse {
		buckets = append(buckets, "sparse")
	} else {
		buckets = append(buckets, "dense")
	}
	zk := func(k string) string { return k }
	// pattern-order mode with an explicit number: the group (?<k>…) is named "k", which may also be the
	// automatic name of another (unnamed) slot, e.g. (a)(?<1>b): names [0 1 1]. The written name wins
	// in GroupNumberFromName; the automatic one is then ambiguous and not looked up by name.
	ambiguous := func(i int) bool {
		if !cs.Mco || !hasNum || names[i] != strconv.Itoa(nums[i]) {
			return false
		}
		want, written := specName[names[i]]
		return written && want != nums[i]
	}

	// A. shape of the two lists
	if len(names) != len(nums) || len(nums) == 0 || len(nums) != obs.capsz {
		bad(zk("lists-length"), "GetGroupNames/GetGroupNumbers/capsize disagree in length", fmt.Sprint(obs.capsz), fmt.Sprint(len(names), len(nums)))
		return
	}
	if nums[0] != 0 || !sort.IntsAreSorted(nums) {
		bad(zk("numbers-order"), "GetGroupNumbers is not ascending from 0", "ascending", fmt.Sprint(nums))
	}
	for i := 1; i < len(nums); i++ {
		if nums[i] == nums[i-1] {
			bad(zk("numbers-repeat"), "GetGroupNumbers repeats a number", "distinct", fmt.Sprint(nums))
		}
	}
	if (cs.Mco || cs.Ecma) && sparse {
		bad("order-not-dense", "pattern-order numbering left a gap", "0..n-1", fmt.Sprint(nums))
	}
	want0 := "0"
	if cs.Ecma {
		want0 = ""
	}
	if names[0] != want0 {
		bad(zk("name0"), "name of group 0", want0, names[0])
	}
	// B. the two lookups are inverse on the listed numbers and names, and reject everything else
	inList := map[int]bool{}
	for i, n := range nums {
		inList[n] = true
		if got := re.GroupNameFromNumber(n); got != names[i] {
			bad(zk("name-from-number"), fmt.Sprintf("GroupNameFromNumber(%d) differs from GetGroupNames[%d]", n, i), names[i], got)
		}
		if names[i] != "" && !ambiguous(i) {
			if got := re.GroupNumberFromName(names[i]); got != n {
				bad(zk("number-from-name"), fmt.Sprintf("GroupNumberFromName(%q) is not the number it is listed with", names[i]), fmt.Sprint(n), fmt.Sprint(got))
			}
		} else if names[i] == "" && !cs.Ecma {
			bad(zk("empty-name"), "a group has no name outside ECMAScript mode", "name", fmt.Sprintf("%q", names))
		}
	}
	top := nums[len(nums)-1]
	for n := -1; n <= top+2; n++ {
		if !inList[n] {
			if got := re.GroupNameFromNumber(n); got != "" {
				bad(zk("name-of-unknown-number"), fmt.Sprintf("GroupNameFromNumber(%d) for a number that is not a group", n), `""`, got)
			}
		}
	}
	for _, nm := range []string{"nope", "1x", "-1", strconv.Itoa(top + 1)} {
		if got := re.GroupNumberFromName(nm); got != -1 && !c17Has(names, nm) {
			bad(zk("number-of-unknown-name"), fmt.Sprintf("GroupNumberFromName(%q) for a name that is not a group", nm), "-1", fmt.Sprint(got))
		}
	}
	// explicit names: the number the documented rule gives
	if specOK {
		for nm, want := range specName {
			if got := re.GroupNumberFromName(nm); got != want {
				bad("rule-named", fmt.Sprintf("number of named group %q", nm), fmt.Sprint(want), fmt.Sprint(got))
			}
		}
		wantNums := map[int]bool{0: true}
		for _, v := range specEv {
			if v >= 0 {
				wantNums[v] = true
			}
		}
		var wl []int
		for v := range wantNums {
			wl = append(wl, v)
		}
		sort.Ints(wl)
		if fmt.Sprint(wl) != fmt.Sprint(nums) {
			bad("rule-numbers", "GetGroupNumbers differs from the documented rule", fmt.Sprint(wl), fmt.Sprint(nums))
		}
	}
	if hasBal {
		return
	}
	// C. one match: Groups() order, GroupByName, GroupByNumber, expected texts
	m, err := re.FindStringMatch(text)
	if err != nil || m == nil || m.String() != text {
		bad(zk("no-match"), "pattern does not match its own subject "+text, text, fmt.Sprint(m, err))
		return
	}
	gs := m.Groups()
	if len(gs) != len(nums) || m.GroupCount() != len(nums) {
		bad(zk("groups-length"), "Match.Groups() has another length than GetGroupNumbers", fmt.Sprint(len(nums)), fmt.Sprint(len(gs)))
		return
	}
	textOf := map[string]int{}
	for i, s := range span {
		textOf[s] = i
	}
	obs.evNum = make([]int, len(cs.Evs))
	for i := range obs.evNum {
		obs.evNum[i] = -1
	}
	rank := cs.closeRank()
	for i, n := range nums {
		g := m.GroupByNumber(n)
		if g == nil {
			bad(zk("group-by-number-nil"), fmt.Sprintf("GroupByNumber(%d) is nil for a listed number", n), "group", "nil")
			continue
		}
		if gs[i].String() != g.String() || len(gs[i].Captures) != len(g.Captures) {
			bad(zk("groups-order"), fmt.Sprintf("Groups()[%d] is not GroupByNumber(%d)", i, n), g.String(), gs[i].String())
		}
		if names[i] != "" && !ambiguous(i) {
			gn := m.GroupByName(names[i])
			if gn == nil || gn.String() != g.String() || len(gn.Captures) != len(g.Captures) {
				got := "nil"
				if gn != nil {
					got = gn.String()
				}
				bad(zk("group-by-name"), fmt.Sprintf("GroupByName(%q) is not GroupByNumber(%d)", names[i], n), g.String(), got)
			}
		}
		if n == 0 {
			continue
		}
		// which events capture into n; the last capture must be the one that closes last
		last, lastRank := -1, -1
		for _, c := range g.Captures {
			ev, ok := textOf[c.String()]
			if !ok {
				bad(zk("capture-text"), fmt.Sprintf("group %d has a capture that is no group's text", n), "a group text", c.String())
				continue
			}
			obs.evNum[ev] = n
			if rank[ev] > lastRank {
				last, lastRank = ev, rank[ev]
			}
		}
		if last >= 0 && g.String() != span[last] {
			bad(zk("last-capture"), fmt.Sprintf("value of group %d is not its last capture", n), span[last], g.String())
		}
		if len(g.Captures) == 0 {
			bad("never-captures", fmt.Sprintf("group %d is listed but no group of the pattern captures into it", n), "a capture", "none")
		}
	}
	if specOK {
		for i, e := range cs.Evs {
			if specEv[i] != obs.evNum[i] {
				bad("rule-event", fmt.Sprintf("group #%d (%s) captures into another number than the documented rule says", i, e.K), fmt.Sprint(specEv), fmt.Sprint(obs.evNum))
				break
			}
		}
	}
	// expected value of a number / a name = text of the last-closing event designated by it
	valNum := map[int]string{}
	bestRank := map[int]int{}
	for i, n := range obs.evNum {
		if n >= 0 {
			if r, ok := bestRank[n]; !ok || rank[i] > r {
				bestRank[n], valNum[n] = rank[i], span[i]
			}
		}
	}
	valName := map[string]string{}
	bestN := map[string]int{}
	for i, e := range cs.Evs {
		nm := e.Name
		if e.K == "k" && cs.Mco {
			nm = strconv.Itoa(e.Num) // booked under its decimal string
		} else if e.K != "n" {
			continue
		}
		if r, ok := bestN[nm]; !ok || rank[i] > r {
			bestN[nm], valName[nm] = rank[i], span[i]
		}
	}
	{
		for nm, want := range valName {
			g := m.GroupByName(nm)
			if g == nil || g.String() != want {
				bad(zk("by-name-text"), fmt.Sprintf("GroupByName(%q) is not the last group written with that name", nm), want, fmt.Sprint(g))
			}
		}
	}
	// D. references: \k<name>, \N, (?P=name) appended to the pattern; ${name}, $N, ${N} in a replacement
	var refPat, refWant, repl, replWant strings.Builder
	type ref struct{ src, want string }
	var refs, repls []ref
	for i, n := range nums {
		if n == 0 {
			continue
		}
		want, has := valNum[n]
		if !has {
			continue // number without any capturing group (only in the MaintainCaptureOrder zone)
		}
		refs = append(refs, ref{`\` + strconv.Itoa(n), want})
		if !cs.Ecma {
			refs = append(refs, ref{`\k<` + strconv.Itoa(n) + `>`, want})
		}
		repls = append(repls, ref{"$" + strconv.Itoa(n), want}, ref{"${" + strconv.Itoa(n) + "}", want})
		nm := names[i]
		if nm != "" && nm != strconv.Itoa(n) && !c17AllDigits(nm) { // \k<12>, ${12} are read as numbers
			refs = append(refs, ref{`\k<` + nm + `>`, want})
			if !cs.Ecma {
				refs = append(refs, ref{`\k'` + nm + `'`, want})
			}
			if cs.Re2 {
				refs = append(refs, ref{`(?P=` + nm + `)`, want})
			}
			repls = append(repls, ref{"${" + nm + "}", want})
		}
	}
	for _, r := range refs {
		refPat.WriteString(r.src)
		refWant.WriteString(r.want)
	}
	if len(refs) > 0 {
		full := `\A(?:` + pat + `)` + refPat.String() + `\z`
		okAll := false
		if re2, err := regexp2.Compile(full, cs.opts()...); err == nil {
			if mm, _ := re2.FindStringMatch(text + refWant.String()); mm != nil {
				okAll = true
			}
		}
		if !okAll {
			for _, r := range refs {
				one := `\A(?:` + pat + `)` + r.src + `\z`
				re1, err := regexp2.Compile(one, cs.opts()...)
				if err != nil {
					bad(zk("backref-compile"), "reference "+r.src+" to an existing group does not compile", "compiles", err.Error())
					continue
				}
				if mm, _ := re1.FindStringMatch(text + r.want); mm == nil {
					bad(zk("backref"), "reference "+r.src+" does not match the text of the group it designates", r.want, "no match")
				}
			}
			if fail == nil {
				bad(zk("backref-combined"), "the references match one by one but not in sequence", refWant.String(), "no match")
			}
		} else if len(span) > 1 {
			// and not anything else: a wrong last reference text must not match
			wrong := text + refWant.String()
			wrong = wrong[:len(wrong)-1] + "~"
			if re2, err := regexp2.Compile(full, cs.opts()...); err == nil {
				if mm, _ := re2.FindStringMatch(wrong); mm != nil {
					bad(zk("backref-overmatch"), "pattern with references matches a subject with a wrong last character", "no match", mm.String())
				}
			}
		}
	}
	// D2. conditionals: (?(N)yes|no) and (?(name)yes|no) test the group that N / name designate everywhere
	// else.  Every top-level group is made optional and the subject is given with and without the text of
	// one top-level group, so that some groups participate and others do not.
	if fail == nil && !hasBal && !cs.Ecma && !cs.Re2 {
		patOpt, top := cs.printOpt()
		removed := []int{-1}
		for i := range cs.Evs {
			if top[i] == i && len(removed) < 5 {
				removed = append(removed, i)
			}
		}
		for _, t := range removed {
			subject := ""
			part := map[int]bool{}
			for i := range cs.Evs {
				if top[i] != t {
					subject += c17Lit(i)
					if n := obs.evNum[i]; n > 0 {
						part[n] = true
					}
				}
			}
			type cond struct {
				src  string
				want byte
			}
			var conds []cond
			for i, n := range nums {
				if n == 0 {
					continue
				}
				if _, has := valNum[n]; !has {
					continue
				}
				w := byte('N')
				if part[n] {
					w = 'Y'
				}
				conds = append(conds, cond{"(?(" + strconv.Itoa(n) + ")Y|N)", w})
				if nm := names[i]; nm != "" && !c17AllDigits(nm) && !ambiguous(i) {
					conds = append(conds, cond{"(?(" + nm + ")Y|N)", w})
				}
			}
			var cp, cw strings.Builder
			for _, c := range conds {
				cp.WriteString(c.src)
				cw.WriteByte(c.want)
			}
			if len(conds) == 0 {
				break
			}
			okAll := false
			if re3, err := regexp2.Compile(`\A(?:`+patOpt+`)`+cp.String()+`\z`, cs.opts()...); err == nil {
				if mm, _ := re3.FindStringMatch(subject + cw.String()); mm != nil {
					okAll = true
				}
			}
			if okAll {
				buckets = append(buckets, "conditionals-checked")
				continue
			}
			for _, c := range conds {
				re1, err := regexp2.Compile(`\A(?:`+patOpt+`)`+c.src+`\z`, cs.opts()...)
				if err != nil {
					bad(zk("cond-compile"), "conditional "+c.src+" on an existing group does not compile", "compiles", err.Error())
					continue
				}
				if mm, _ := re1.FindStringMatch(subject + string(c.want)); mm == nil {
					what := "participates"
					if c.want == 'N' {
						what = "does not participate"
					}
					bad(zk("cond-ref"), fmt.Sprintf("on subject %q the group designated by %s %s (GroupByNumber / the numbering rule), but the conditional takes the other branch", subject, c.src, what), string(c.want), "other branch")
				}
			}
			if fail == nil {
				bad(zk("cond-combined"), "the conditionals match one by one but not in sequence", cw.String(), "no match")
			}
			break
		}
	}
	for _, r := range repls {
		repl.WriteString("[" + r.src + "]")
		replWant.WriteString("[" + r.want + "]")
	}
	if len(repls) > 0 {
		got, err := re.Replace(text, repl.String(), -1, -1)
		if err != nil || got != replWant.String() {
			for _, r := range repls {
				g1, err := re.Replace(text, "["+r.src+"]", -1, -1)
				if err != nil || g1 != "["+r.want+"]" {
					bad(zk("replace-ref"), "replacement reference "+r.src+" does not yield the text of the group it designates", "["+r.want+"]", fmt.Sprint(g1, err))
				}
			}
			if fail == nil {
				bad(zk("replace-combined"), "replacement "+repl.String(), replWant.String(), fmt.Sprint(got, err))
			}
		}
	}
	// E. Groups()[i].Name, numbers that are no groups, digit strings that are no names
	for i := range nums {
		if gs[i].Name != names[i] {
			bad("groups-name", fmt.Sprintf("Groups()[%d].Name is not GetGroupNames[%d] (number %d)", i, i, nums[i]), names[i], gs[i].Name)
		}
	}
	for n := -1; n <= top+2; n++ {
		if !inList[n] {
			if g := m.GroupByNumber(n); g != nil {
				bad("group-by-unknown-number", fmt.Sprintf("GroupByNumber(%d) returns a group although %d is not a group number", n, n), "nil", fmt.Sprintf("%q", g.String()))
			}
		}
	}
	for _, nm := range []string{"", "00", "01", "18446744073709551617"} {
		if got := re.GroupNumberFromName(nm); got != -1 && !c17Has(names, nm) {
			bad(zk("number-of-noncanonical-digits"), fmt.Sprintf("GroupNumberFromName(%q) resolves a digit string that is not one of GetGroupNames", nm), "-1", fmt.Sprint(got))
		}
	}
	// the parser's own tables, for the correspondence
	if tree, err := syntax.Parse(pat, syntax.ParseOptions{RegexOptions: syntax.RegexOptions(c17RO(cs)), MaintainCaptureOrder: cs.Mco}); err == nil {
		obs.captop = tree.Captop
	}
	return
}

func c17AllDigits(s string) bool {
	for i := 0; i < len(s); i++ {
		if s[i] < '0' || s[i] > '9' {
			return false
		}
	}
	return s != ""
}

func c17Has(xs []string, s string) bool {
	for _, x := range xs {
		if x == s {
			return true
		}
	}
	return false
}

func c17RO(cs c17Case) regexp2.RegexOptions {
	var ro regexp2.RegexOptions
	if cs.Ecma {
		ro |= regexp2.ECMAScript
	}
	if cs.Re2 {
		ro |= regexp2.RE2
	}
	if cs.N {
		ro |= regexp2.ExplicitCapture
	}
	return ro
}

// protocol ------------------------------------------------------------------------------------

func c17Line(cs c17Case) string {
	var evs []string
	for _, e := range cs.Evs {
		switch e.K {
		case "u":
			evs = append(evs, "(u)")
		case "x":
			evs = append(evs, "(x)")
		case "n":
			evs = append(evs, core.S("n", core.SRunes(e.Name)))
		case "k":
			if e.Sp == 3 {
				evs = append(evs, core.S("z", strconv.Itoa(e.Num)))
			} else {
				evs = append(evs, core.S("k", strconv.Itoa(e.Num)))
			}
		}
	}
	return core.S("c17", core.S("cfg", core.SBool(cs.Mco), core.SBool(cs.Ecma), core.SBool(cs.N)), core.S("evs", evs...))
}

// canonical rendering of Go's tables in the shape of the driver's answer
func c17Render(o c17Obs, withEv bool) string {
	if o.err != "" {
		return "(err)"
	}
	var nm []string
	for _, s := range o.names {
		nm = append(nm, core.SRunes(s))
	}
	caps := "(caps nil)"
	if o.caps != nil {
		var ks []int
		for k := range o.caps {
			ks = append(ks, k)
		}
		sort.Ints(ks)
		var kv []string
		for _, k := range ks {
			kv = append(kv, fmt.Sprintf("(%d %d)", k, o.caps[k]))
		}
		caps = core.S("caps", kv...)
	}
	parts := []string{core.S("nums", core.SInts(o.nums)), core.S("names", nm...), caps, core.S("capsize", strconv.Itoa(o.capsz))}
	if withEv {
		parts = append(parts, core.S("ev", core.SInts(o.evNum)))
	}
	return core.S("ok", parts...)
}

func c17Check(c *core.Ctx, cases []c17Case) []core.Outcome {
	outs := make([]core.Outcome, len(cases))
	lines := make([]string, len(cases))
	obs := make([]c17Obs, len(cases))
	for i, cs := range cases {
		o := &outs[i]
		lines[i] = c17Line(cs)
		pat, _, _ := cs.print()
		o.Key = cs.mode() + ":" + pat
		capturing := 0
		for _, e := range cs.Evs {
			if e.K != "x" && !(e.K == "u" && cs.N) {
				capturing++
			}
		}
		o.Nontrivial = capturing >= 2
		obs[i], o.Fail, o.Buckets = c17Oracle(cs)
		if o.Fail != nil {
			o.Buckets = append(o.Buckets, "oracle-fail:"+o.Fail.Key)
		}
	}
	res, err := c.RunDriver(lines)
	if err != nil {
		for i := range outs {
			if outs[i].Fail == nil {
				outs[i].Fail = core.DriverFailure(err)
				break
			}
		}
		return outs
	}
	for i := range cases {
		if outs[i].Fail != nil {
			continue
		}
		outs[i].Buckets = append(outs[i].Buckets, "model-compared")
		withEv := obs[i].evNum != nil
		got := c17Render(obs[i], withEv)
		want := res[i]
		if !withEv {
			want = c17DropEv(want)
		}
		if want != got {
			outs[i].Buckets = append(outs[i].Buckets, "model-mismatch")
			outs[i].Fail = c17Fail("correspondence-break", "model:"+cases[i].mode(), "Lean model Groups.assign disagrees with the parser/writer tables for "+outs[i].Key, want, got)
		}
	}
	return outs
}

// c17DropEv removes the trailing (ev …) part of a driver answer
func c17DropEv(s string) string {
	if j := strings.LastIndex(s, " (ev "); j >= 0 && strings.HasSuffix(s, "))") {
		return s[:j] + ")"
	}
	return s
}

func init() {
	core.Register("C17", func(c *core.Ctx) {
		corpus := []c17Case{
			{Evs: []c17Ev{{K: "u"}, {K: "n", Name: "x", Up: 1}, {K: "k", Num: 7, Up: 1}, {K: "n", Name: "x", Up: 1}, {K: "x", Up: 1}}},
			{Evs: []c17Ev{{K: "u"}, {K: "n", Name: "x", Up: 1}, {K: "n", Name: "y", Up: 1}, {K: "u", Up: 1}}, Mco: true},
			{Evs: []c17Ev{{K: "u"}, {K: "n", Name: "x", Up: 1}, {K: "n", Name: "y", Up: 1}}, Ecma: true},
			{Evs: []c17Ev{{K: "u"}, {K: "n", Name: "x", Up: 1, Sp: 2}, {K: "k", Num: 7, Up: 1}, {K: "n", Name: "x", Up: 1, Sp: 2}}, Re2: true},
			{Evs: []c17Ev{{K: "u"}, {K: "n", Name: "x", Up: 1}, {K: "k", Num: 7, Up: 1}}, N: true},
			{Evs: []c17Ev{{K: "k", Num: 2}, {K: "n", Name: "x", Up: 1}, {K: "u", Up: 1}, {K: "u", Up: 1}}},
			{Evs: []c17Ev{{K: "k", Num: 2}, {K: "k", Num: 3, Up: 1}}},
			{Evs: []c17Ev{{K: "n", Name: "x"}, {K: "n", Name: "x"}, {K: "u"}}},
			{Evs: []c17Ev{{K: "u"}, {K: "k", Num: 1, Up: 1}}, Mco: true},
			{Evs: []c17Ev{{K: "k", Num: 2}, {K: "u", Up: 1}, {K: "u", Up: 1}}, Mco: true},
			{Evs: []c17Ev{{K: "u"}, {K: "k", Num: 1, Up: 1, Sp: 3}}},
			{Evs: []c17Ev{{K: "u"}, {K: "n", Name: "x", Up: 1}, {K: "n", Name: "y", Up: 1, Bal: "x"}}},
			// witnesses of the former findings F1-F6 (fixed in /repo: 2bf8733 9af4686 4181360 14b4ba0 4579bd8)
			{Evs: []c17Ev{{K: "u"}, {K: "n", Name: "x", Up: 1}, {K: "k", Num: 7, Up: 1}}}, // F1 Groups()[3].Name, F2 GroupByNumber(3)
			{Evs: []c17Ev{{K: "k", Num: 2}, {K: "k", Num: 3, Up: 1}}},                     // F1 slot 2 was named "2"
			{Evs: []c17Ev{{K: "u"}, {K: "k", Num: 7, Up: 1}}},                             // F2
			{Evs: []c17Ev{{K: "u"}, {K: "k", Num: 1, Up: 1}}, Mco: true},                  // F3 (a)(?<1>b)
			{Evs: []c17Ev{{K: "k", Num: 5}}, Mco: true},                                   // F3 (?<5>a) was rejected
			{Evs: []c17Ev{{K: "k", Num: 2}, {K: "u", Up: 1}, {K: "u", Up: 1}}, Mco: true}, // F3 (?<2>a)(b)(c)
			{Evs: []c17Ev{{K: "u"}, {K: "u", Up: 1}}},                                     // F4 "", "00", "01", overflow
			{Evs: []c17Ev{{K: "n", Name: "x"}, {K: "k", Num: 1, Up: 1, Sp: 3}}},           // F5 (?<x>a)(?<01>b)
			{Evs: []c17Ev{{K: "k", Num: 1, Sp: 3}}},                                       // F5 (?<01>a) alone was rejected
			{Evs: []c17Ev{{K: "k", Num: 1, Sp: 3}, {K: "u", Up: 1}}, Mco: true},           // F6 (?<01>a)(b) panicked
		}
		core.RunLeg(c, core.Leg[c17Case]{
			Name: "G", Kind: "correspondence+oracle",
			Rule:   "random lists of 1-15 group-opening events (unnamed / named from a pool of 1-4 names incl. digit-like and non-ASCII names / explicitly numbered, dense and sparse, 1 in 8 written with a leading zero / non-capturing), random nesting, spellings (?<>, (?'', (?P<> (RE2), occasional balancing group; x {default, MaintainCaptureOrder, ECMAScript, RE2, ExplicitCapture and pairs}; every group wraps its own letter. non-trivial = at least two capturing groups; distinct by (mode, pattern). Each case: cross-API oracle on the Go engine (lists aligned/ascending, lookups inverse, Groups() order and names, GroupByName/GroupByNumber texts and nil for non-groups, documented numbering rule incl. explicit numbers booked in pattern order under MaintainCaptureOrder, \\k<name> \\N (?P=name) references, (?(N)…) and (?(name)…) conditionals on subjects where some top-level groups participate and others do not, ${name} $N replacement, no panic) and Lean Groups.assign vs GetGroupNumbers/GetGroupNames/Code.Caps/Capsize/per-group numbers",
			Corpus: corpus, N: c.N(6000, 200000), Gen: c17Gen, Check: c17Check,
		})
	})
}
