package legs

import (
	"encoding/hex"
	"errors"
	"fmt"
	"math/rand"
	"runtime/debug"
	"strings"
	"time"

	"rvharness/internal/core"
	"rvharness/internal/gen"

	regexp2 "github.com/dlclark/regexp2/v2"
	"github.com/dlclark/regexp2/v2/compat"
	"github.com/dlclark/regexp2/v2/syntax"
)

// C10 — arbitrary patterns and inputs never panic or hang the API.
// Leg X (exploration): arbitrary byte strings as patterns (mutations of harvested literals, corpus
// quotes and printed random ASTs), all option subsets and compile options, arbitrary byte strings as
// inputs and replacement strings, out-of-range offsets and counts, through every exported function,
// under recover() and a watchdog. The only errors allowed: a parse error from Compile, a timeout, the
// backtracking stack limit, a documented argument error, a replacement parse error.

type c10Case struct {
	PatHex   string `json:"pattern_hex"`
	Opts     int32  `json:"opts"`
	CodeGen  bool   `json:"codegen,omitempty"`
	NoBitmap bool   `json:"nobitmap,omitempty"`
	Order    bool   `json:"capture_order,omitempty"`
	StackMax int    `json:"stack_max"` // 0 = default
	InHex    string `json:"input_hex"`
	ReplHex  string `json:"repl_hex"`
	Start    int    `json:"start"`
	Count    int    `json:"count"`
}

func unhex(s string) string { b, _ := hex.DecodeString(s); return string(b) }

var c10Meta = []string{"(", ")", "[", "]", "{", "}", "*", "+", "?", "|", "\\", "^", "$", ".", "-", ",", ":", "<", ">", "=", "!", "#", "'", "P", "p", "k", "x", "u", "c", "0", "1", "9", "{2,", "(?", "(?<", "(?'", "(?(", "(?=", "(?<=", "(?>", "(?i)", "(?x)", "(?-", "[^", "[[:", ":]]", "-[", "\\p{", "\\P{", "\\k<", "\\x{", "\\G", "\\Z", "\\b", "\\1", "\\10", "$1", "${", "$&", "$`", "$'", "$+", "$_", "$$", "\x00", "\xff", "\xc3", "é", "😀", "K", " ", "\n"}

func c10Mutate(rng *rand.Rand, s string) string {
	b := []byte(s)
	for k := 1 + rng.Intn(3); k > 0; k-- {
		switch rng.Intn(6) {
		case 0: // insert a metacharacter sequence
			p := rng.Intn(len(b) + 1)
			m := c10Meta[rng.Intn(len(c10Meta))]
			b = append(b[:p], append([]byte(m), b[p:]...)...)
		case 1: // delete a byte
			if len(b) > 0 {
				p := rng.Intn(len(b))
				b = append(b[:p], b[p+1:]...)
			}
		case 2: // replace a byte
			if len(b) > 0 {
				b[rng.Intn(len(b))] = byte(rng.Intn(256))
			}
		case 3: // duplicate a slice
			if len(b) > 1 {
				i := rng.Intn(len(b))
				j := i + rng.Intn(len(b)-i)
				b = append(b[:j], append(append([]byte{}, b[i:j]...), b[j:]...)...)
			}
		case 4: // truncate
			if len(b) > 0 {
				b = b[:rng.Intn(len(b)+1)]
			}
		case 5: // wrap
			b = append([]byte(c10Meta[rng.Intn(len(c10Meta))]), append(b, ')')...)
		}
	}
	if len(b) > 300 {
		b = b[:300]
	}
	return string(b)
}

func c10Gen(rng *rand.Rand, i int) c10Case {
	loadHarvest()
	var pat string
	switch rng.Intn(4) {
	case 0:
		pat = harvestedIn[rng.Intn(len(harvestedIn))]
	case 1:
		pat = c10Mutate(rng, harvestedIn[rng.Intn(len(harvestedIn))])
	case 2:
		_, o := randRegexOptions(rng, true)
		pat = gen.Random(rng, fullConfig(rng, o)).Print(o)
		if rng.Intn(2) == 0 {
			pat = c10Mutate(rng, pat)
		}
	default:
		var sb strings.Builder
		for k := rng.Intn(8); k > 0; k-- {
			sb.WriteString(c10Meta[rng.Intn(len(c10Meta))])
			if rng.Intn(2) == 0 {
				sb.WriteByte("abAB1 "[rng.Intn(6)])
			}
		}
		pat = sb.String()
	}
	// a third of the cases: the shapes the candidate finders and the tree rewrites recognise, with inputs
	// sampled from the pattern (matches, near misses, inputs ending right after a piece of a match)
	directed := ""
	haveDirected := false
	if rng.Intn(3) == 0 {
		_, o := randRegexOptions(rng, true)
		cfg := fullConfig(rng, o)
		var ast *gen.Node
		if rng.Intn(3) != 0 {
			ast = biasedAst(rng, cfg)
		} else {
			ast = rewriteAst(rng, cfg)
		}
		pat = ast.Print(o)
		ins := gen.Inputs(rng, ast, 4, 12)
		directed, haveDirected = string(ins[1+rng.Intn(len(ins)-1)]), true
		if rng.Intn(3) == 0 {
			// invalid UTF-8 in the string form, preferably near the end
			b := []byte(directed)
			for k := 1 + rng.Intn(2); k > 0; k-- {
				p := len(b) - rng.Intn(3)
				if p < 0 || rng.Intn(3) == 0 {
					p = rng.Intn(len(b) + 1)
				}
				b = append(b[:p], append([]byte{[]byte{0xff, 0xc3, 0x80, 0xe2}[rng.Intn(4)]}, b[p:]...)...)
			}
			directed = string(b)
		}
	}
	if hugeRepeat.MatchString(pat) && rng.Intn(10) != 0 {
		pat = hugeRepeat.ReplaceAllString(pat, "{2")
	}
	var opts int32
	for _, b := range allOptionBits {
		if rng.Intn(5) == 0 {
			opts |= int32(b)
		}
	}
	if rng.Intn(3) == 0 {
		opts = 0
	}
	in := harvestedIn[rng.Intn(len(harvestedIn))]
	if rng.Intn(2) == 0 {
		in = c10Mutate(rng, in)
	}
	if len(in) > 120 {
		in = in[:120]
	}
	if haveDirected {
		in = directed
		if rng.Intn(2) == 0 {
			opts &^= int32(regexp2.RightToLeft | regexp2.ECMAScript | regexp2.RE2)
		}
	}
	var rs strings.Builder
	for k := rng.Intn(5); k > 0; k-- {
		rs.WriteString(c10Meta[rng.Intn(len(c10Meta))])
		if rng.Intn(2) == 0 {
			rs.WriteString([]string{"1", "name", "a", "{1}", "{x}", "10"}[rng.Intn(6)])
		}
	}
	c := c10Case{PatHex: hex.EncodeToString([]byte(pat)), Opts: opts, CodeGen: rng.Intn(4) == 0, NoBitmap: rng.Intn(4) == 0, Order: rng.Intn(5) == 0,
		InHex: hex.EncodeToString([]byte(in)), ReplHex: hex.EncodeToString([]byte(rs.String())),
		Start: rng.Intn(len(in)+5) - 2, Count: []int{-2, -1, -1, 0, 1, 2, 5}[rng.Intn(7)]}
	if rng.Intn(4) == 0 {
		c.StackMax = []int{-1, 1, 7, 64, 100, 257}[rng.Intn(6)]
	}
	return c
}

func c10AllowedError(err error) bool {
	if err == nil || errors.Is(err, regexp2.ErrBacktrackingStackLimit) {
		return true
	}
	var pe *syntax.Error
	if errors.As(err, &pe) {
		return true // parse error (Compile, replacement pattern)
	}
	m := err.Error()
	return strings.HasPrefix(m, "match timeout after") || strings.HasPrefix(m, "startAt must") || m == "count too small" ||
		errors.Is(err, syntax.ErrReplacementError)
}

// c10Run executes every entry point on one case; it returns a description of the first violation.
func c10Run(cs *c10Case) (viol string, key string, buckets []string) {
	pat, in, repl := unhex(cs.PatHex), unhex(cs.InHex), unhex(cs.ReplHex)
	step := "Compile"
	defer func() {
		if r := recover(); r != nil {
			viol = fmt.Sprintf("panic in %s: %v\n%s", step, r, string(debug.Stack()))
			if len(viol) > 1800 {
				viol = viol[:1800]
			}
			key = "panic:" + step
		}
	}()
	opts := []regexp2.CompileOption{regexp2.RegexOptions(cs.Opts)}
	if cs.CodeGen {
		opts = append(opts, regexp2.OptionIsCodeGen())
	}
	if cs.NoBitmap {
		opts = append(opts, regexp2.OptionDisableCharClassASCIIBitmap())
	}
	if cs.Order {
		opts = append(opts, regexp2.OptionMaintainCaptureOrder())
	}
	if cs.StackMax != 0 {
		opts = append(opts, regexp2.OptionMaxBacktrackingStackSize(cs.StackMax))
	}
	re, err := regexp2.Compile(pat, opts...)
	if err != nil {
		buckets = append(buckets, "compile-error")
		if !c10AllowedError(err) {
			return "Compile returned an undocumented error: " + err.Error(), "error:Compile", buckets
		}
		// MustCompile must panic with exactly that error
		step = "MustCompile"
		func() {
			defer func() {
				r := recover()
				if r == nil {
					viol, key = "MustCompile did not panic on a pattern Compile rejects", "mustcompile:no-panic"
				} else if s, ok := r.(string); !ok || !strings.Contains(s, err.Error()) {
					viol, key = fmt.Sprintf("MustCompile panicked with something else than the parse error: %v", r), "mustcompile:other-panic"
				}
			}()
			regexp2.MustCompile(pat, opts...)
		}()
		step = "Escape/Unescape"
		e := regexp2.Escape(in)
		if _, err := regexp2.Unescape(e); err != nil && strings.ToValidUTF8(in, "") == in {
			// (round trip itself is C19; here only: no panic, and errors are parse errors)
			if !c10AllowedError(err) {
				return "Unescape returned an undocumented error: " + err.Error(), "error:Unescape", buckets
			}
		}
		_, _ = regexp2.Unescape(in)
		return viol, key, buckets
	}
	buckets = append(buckets, "compiled")
	re.MatchTimeout = 150 * time.Millisecond
	check := func(name string, err error) bool {
		if !c10AllowedError(err) {
			viol, key = name+" returned an undocumented error: "+err.Error(), "error:"+name
			return false
		}
		if err != nil {
			switch {
			case errors.Is(err, regexp2.ErrBacktrackingStackLimit):
				buckets = append(buckets, "err=stack-limit")
			case strings.HasPrefix(err.Error(), "match timeout"):
				buckets = append(buckets, "err=timeout")
			default:
				buckets = append(buckets, "err=argument")
			}
		}
		return true
	}
	runes := []rune(in)
	rstart := cs.Start
	step = "MatchString"
	_, err = re.MatchString(in)
	if !check(step, err) {
		return
	}
	step = "MatchRunes"
	_, err = re.MatchRunes(runes)
	if !check(step, err) {
		return
	}
	step = "FindStringMatch"
	m, err := re.FindStringMatch(in)
	if !check(step, err) {
		return
	}
	for k := 0; m != nil && k < 6; k++ {
		step = "Match accessors"
		_ = m.String()
		_, _ = m.ByteRange()
		for _, g := range m.Groups() {
			_ = g.String()
			_, _ = g.ByteRange()
			for _, c := range g.Captures {
				_ = c.Runes()
				_, _ = c.ByteRange()
			}
		}
		_ = m.GroupByName("name")
		_ = m.GroupByNumber(cs.Count)
		_ = m.GroupCount()
		step = "FindNextMatch"
		m, err = re.FindNextMatch(m)
		if !check(step, err) {
			return
		}
	}
	step = "FindRunesMatch"
	_, err = re.FindRunesMatch(runes)
	if !check(step, err) {
		return
	}
	step = "FindStringMatchStartingAt"
	_, err = re.FindStringMatchStartingAt(in, cs.Start)
	if !check(step, err) {
		return
	}
	step = "FindRunesMatchStartingAt"
	if rstart >= 0 && rstart <= len(runes) { // documented precondition: an index into the rune slice
		_, err = re.FindRunesMatchStartingAt(runes, rstart)
		if !check(step, err) {
			return
		}
	}
	step = "FindAllStringIndex"
	_, err = re.FindAllStringIndex(in, cs.Count)
	if !check(step, err) {
		return
	}
	step = "FindAllRunesIndex"
	_, err = re.FindAllRunesIndex(runes, cs.Count)
	if !check(step, err) {
		return
	}
	step = "Replace"
	_, err = re.Replace(in, repl, cs.Start, cs.Count)
	if !check(step, err) {
		return
	}
	step = "ReplaceFunc"
	_, err = re.ReplaceFunc(in, func(m regexp2.Match) string { return m.String() + repl }, cs.Start, cs.Count)
	if !check(step, err) {
		return
	}
	step = "Split"
	_, err = re.Split(in, cs.Count)
	if !check(step, err) {
		return
	}
	step = "group maps"
	for _, nme := range re.GetGroupNames() {
		_ = re.GroupNumberFromName(nme)
	}
	for _, num := range re.GetGroupNumbers() {
		_ = re.GroupNameFromNumber(num)
	}
	_ = re.GroupNameFromNumber(cs.Count)
	_ = re.GroupNumberFromName(repl)
	_ = re.String()
	step = "Escape/Unescape"
	_, _ = regexp2.Unescape(regexp2.Escape(in))
	_, _ = regexp2.Unescape(in)
	_, _ = regexp2.Unescape(pat)
	// the adapter: panics only with a match-time error
	step = "compat"
	func() {
		defer func() {
			if r := recover(); r != nil {
				if e, ok := r.(error); ok && c10AllowedError(e) {
					buckets = append(buckets, "compat-panic-allowed")
					return
				}
				panic(r)
			}
		}()
		cre := compat.Wrap(re)
		b := []byte(in)
		_ = cre.Match(b)
		_ = cre.MatchString(in)
		_ = cre.MatchReader(strings.NewReader(in))
		_ = cre.Find(b)
		_ = cre.FindIndex(b)
		_ = cre.FindString(in)
		_ = cre.FindStringIndex(in)
		_ = cre.FindReaderIndex(strings.NewReader(in))
		_ = cre.FindSubmatch(b)
		_ = cre.FindSubmatchIndex(b)
		_ = cre.FindStringSubmatch(in)
		_ = cre.FindStringSubmatchIndex(in)
		_ = cre.FindReaderSubmatchIndex(strings.NewReader(in))
		_ = cre.FindAll(b, cs.Count)
		_ = cre.FindAllIndex(b, cs.Count)
		_ = cre.FindAllString(in, cs.Count)
		_ = cre.FindAllStringIndex(in, cs.Count)
		_ = cre.FindAllSubmatch(b, cs.Count)
		_ = cre.FindAllSubmatchIndex(b, cs.Count)
		_ = cre.FindAllStringSubmatch(in, cs.Count)
		_ = cre.FindAllStringSubmatchIndex(in, cs.Count)
	}()
	return
}

func c10Check(c *core.Ctx, cases []c10Case) []core.Outcome {
	outs := make([]core.Outcome, len(cases))
	for i := range cases {
		cs := &cases[i]
		o := &outs[i]
		o.Key = cs.PatHex + "|" + fmt.Sprint(cs.Opts, cs.CodeGen, cs.NoBitmap, cs.Order, cs.StackMax) + "|" + cs.InHex + "|" + cs.ReplHex + fmt.Sprint(cs.Start, cs.Count)
		o.Nontrivial = len(cs.PatHex) > 2
		type res struct {
			viol, key string
			buckets   []string
		}
		done := make(chan res, 1)
		go func() {
			v, k, b := c10Run(cs)
			done <- res{v, k, b}
		}()
		select {
		case r := <-done:
			o.Buckets = append(o.Buckets, r.buckets...)
			if r.viol != "" {
				o.Fail = &core.Failure{Kind: "impl-violation", Key: "C10:" + r.key,
					Summary:  fmt.Sprintf("%s — pattern %q opts %d input %q repl %q start %d count %d", r.viol, unhex(cs.PatHex), cs.Opts, unhex(cs.InHex), unhex(cs.ReplHex), cs.Start, cs.Count),
					Expected: "returns normally with a documented error or none", Got: r.viol}
			}
		case <-time.After(20 * time.Second):
			o.Fail = &core.Failure{Kind: "impl-violation", Key: "C10:hang",
				Summary:  fmt.Sprintf("no return within 20 s (MatchTimeout 150 ms) — pattern %q opts %d input %q", unhex(cs.PatHex), cs.Opts, unhex(cs.InHex)),
				Expected: "returns", Got: "still running"}
		}
	}
	return outs
}

// c10Corpus: minimised past failures (known_findings.json, "fixed"), run first.
var c10Corpus = func() []c10Case {
	h := func(s string) string { return hex.EncodeToString([]byte(s)) }
	return []c10Case{
		// D47: a case-insensitive fixed-count loop expanded into a string of its count (Compile took minutes)
		{PatHex: h("a{2147482647}a{1000}"), Opts: int32(regexp2.IgnoreCase), InHex: h("aaa"), ReplHex: h("x"), Count: -1},
		// D50: RE2 (?P=name) right after (?( panicked in the tree analyses
		{PatHex: h("(?<n>a)(?(?P=n)b)"), Opts: int32(regexp2.RE2), InHex: h("aab"), ReplHex: h("$1"), Count: -1},
		{PatHex: h("(?(?P=n)b|c)(?P<n>a)"), Opts: int32(regexp2.RE2), InHex: h("ca"), ReplHex: h("x"), Count: -1},
		{PatHex: h("aa{2147483646}"), Opts: int32(regexp2.IgnoreCase | regexp2.Multiline | regexp2.ECMAScript), InHex: h("aaa"), ReplHex: h("$&"), Count: -1},
	}
}()

func init() {
	core.Register("C10", func(c *core.Ctx) {
		core.RunLeg(c, core.Leg[c10Case]{
			Name: "X", Kind: "exploration(no panic, no hang)",
			Rule: "patterns: arbitrary byte strings — literals harvested from the repository's tests and corpora (all of them, compiling or not), structure-aware mutations of them (insert metacharacter sequences, delete/replace bytes incl. invalid UTF-8, duplicate slices, truncate, wrap), printed random full-syntax ASTs and their mutations, random concatenations of metacharacter sequences; random subsets of the 9 regex option bits, code-gen analysis / bitmap off / capture order / stack limits; inputs and replacement strings arbitrary bytes ($-forms, NUL, invalid UTF-8, astral); start offsets in [-2,len+2], counts in {-2,-1,0,1,2,5}. Every exported function (Compile/MustCompile, Match*, Find*, FindNextMatch chain + all Match/Group/Capture accessors, FindAll*Index, Replace, ReplaceFunc, Split, group maps, Escape/Unescape, all 21 adapter methods) runs under recover() and a 20 s watchdog with MatchTimeout 150 ms; allowed outcomes: normal return, parse error, timeout, stack limit, documented argument error; MustCompile panics exactly with the parse error; the adapter panics only with a match-time error. non-trivial = non-empty pattern",
			N:    c.N(12000, 300000), Gen: c10Gen, Check: c10Check, Batch: 500, Corpus: c10Corpus,
		})
		vmLeg(c, c.N(3000, 100000), vmSizes{k: 24, maxSteps: c.N(4000, 20000), maxText: 12, extra: 2}) // leg W: interpreter model vs executeDefault (vm.go)
		parserLeg(c, 2000, 50000)                                                                      // leg Pr: the parser model (parser.go)
		plLeg(c, 250, 6000)                                                                            // leg Pl: parse ∘ reduce ∘ emit as one Lean function (pipeline.go)
	})
}
