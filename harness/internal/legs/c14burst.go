package legs

import (
	"fmt"
	"math/rand"
	"strings"
	"sync"
	"sync/atomic"
	"time"

	"rvharness/internal/core"

	regexp2 "github.com/dlclark/regexp2/v2"
)

// C14/C11 leg B — simultaneous deadlines on a stopped clock.
//
// makeDeadline reads two atomics without the mutex and then enters two critical sections; the
// histories of leg H execute it practically one call at a time.  A burst releases G goroutines from a
// spin barrier, each into a timed catastrophic match on its own warmed Regexp, right after the clock
// has been stopped and left idle for longer than timeout + period — so the time in fast.current is
// older than every deadline that could be computed from it, and any interleaving of the steps of
// makeDeadline that lets a goroutine keep the time it read first shows as a timeout error within
// microseconds.  The oracle is not a timing judgement in the usual sense: a timeout error returned
// after less than a quarter of MatchTimeout (and a clock that cannot have been `running` and stale
// for three quarters of it) is earlier than "roughly d" under every reading, whatever the scheduler
// did.  One member may carry a one-hour timeout: after its extendClock the fast path (end <=
// clockEnd) of the others is open.
//
// Lean: Model/ClockConc.lean is makeDeadline in atomic steps under arbitrary interleaving;
// Props.C14.conc_no_early_deadline is the statement this leg samples.

type c14Burst struct {
	PeriodNs int64 `json:"period_ns"`
	D        int64 `json:"d"`       // MatchTimeout of the catastrophic members
	Idle     int64 `json:"idle"`    // ns the stopped clock is left alone before each burst
	G        int   `json:"g"`       // goroutines per burst
	Hour     bool  `json:"hour"`    // one more member: an instant match with MatchTimeout = 1h
	Bursts   int   `json:"bursts"`  // repetitions
	NoStop   bool  `json:"no_stop"` // let the clock run out by itself (idle > d + 1s + period) instead of StopTimeoutClock
}

type c14BurstObs struct {
	Burst, G int
	El       int64
}

func c14BurstRun(cs c14Burst) (early []c14BurstObs, timeouts, calls int, minEl int64, hung string) {
	c14Calibrate()
	if !c14StopClock() {
		return nil, 0, 0, 0, "StopTimeoutClock did not return within 5s"
	}
	regexp2.SetTimeoutCheckPeriod(time.Duration(cs.PeriodNs))
	res := make([]*regexp2.Regexp, cs.G)
	for g := range res {
		res[g] = regexp2.MustCompile(`(a+)+$`)
		_, _ = res[g].MatchString("aab") // the runner and its stacks exist before the burst
		res[g].MatchTimeout = time.Duration(cs.D)
	}
	hour := regexp2.MustCompile(`a+b`)
	_, _ = hour.MatchString("xxaab")
	hour.MatchTimeout = time.Hour
	minEl = int64(time.Hour)
	for b := 0; b < cs.Bursts; b++ {
		if !cs.NoStop || b == 0 {
			if !c14StopClock() {
				return early, timeouts, calls, minEl, fmt.Sprintf("burst %d: StopTimeoutClock did not return within 5s", b)
			}
		}
		time.Sleep(time.Duration(cs.Idle))
		var wg sync.WaitGroup
		var mu sync.Mutex
		var gate int32
		n := int32(cs.G)
		if cs.Hour {
			n++
		}
		for g := 0; g < int(n); g++ {
			wg.Add(1)
			go func(g int) {
				defer wg.Done()
				atomic.AddInt32(&gate, 1)
				for atomic.LoadInt32(&gate) < n {
				}
				if g >= cs.G {
					_, _ = hour.MatchString("xxaab")
					return
				}
				t0 := time.Now()
				_, err := res[g].MatchString(c14CatInput)
				el := int64(time.Since(t0))
				mu.Lock()
				calls++
				if err != nil && strings.Contains(err.Error(), "match timeout") {
					timeouts++
					if el < minEl {
						minEl = el
					}
					if el < cs.D/4 {
						early = append(early, c14BurstObs{b, g, el})
					}
				}
				mu.Unlock()
			}(g)
		}
		wg.Wait()
		if len(early) > 0 {
			break
		}
	}
	return
}

func c14BurstCheck(c *core.Ctx, cases []c14Burst) []core.Outcome {
	outs := make([]core.Outcome, len(cases))
	defer func() {
		if c14StopClock() {
			regexp2.SetTimeoutCheckPeriod(regexp2.DefaultClockPeriod)
		}
	}()
	for i, cs := range cases {
		o := &outs[i]
		o.Key = string(core.RawJSON(cs))
		o.Nontrivial = cs.G > 1
		if c14Hung {
			o.Buckets = []string{"skipped-clock-cannot-be-stopped"}
			continue
		}
		early, timeouts, calls, minEl, hung := c14BurstRun(cs)
		o.Buckets = []string{fmt.Sprintf("g:%d", cs.G), fmt.Sprintf("hour:%v", cs.Hour), fmt.Sprintf("nostop:%v", cs.NoStop), "timeout:" + c14DClass(cs.D, cs.PeriodNs)}
		if hung != "" {
			o.Fail = &core.Failure{Kind: "impl-violation", Key: "stop-hang", Summary: hung, Expected: "returns after about one period", Got: "still blocked after 5s"}
			continue
		}
		if timeouts > 0 {
			o.Buckets = append(o.Buckets, "min-latency/d:"+fmt.Sprintf("%d%%", minEl*100/cs.D/10*10))
		}
		if timeouts < calls && len(early) == 0 {
			o.Fail = &core.Failure{Kind: "impl-violation", Key: "burst-no-timeout", Summary: fmt.Sprintf("%d of %d catastrophic matches released together with MatchTimeout=%dns returned without a timeout error", calls-timeouts, calls, cs.D), Expected: "timeout error", Got: "nil"}
			continue
		}
		if len(early) > 0 {
			e := early[0]
			o.Fail = &core.Failure{Kind: "impl-violation", Key: "early-timeout:burst",
				Summary:  fmt.Sprintf("burst %d of %d goroutines released together %dms after the clock stopped: the match of goroutine %d (MatchTimeout=%dms, period %dms) returned a timeout error after %dµs (%d such calls in this burst) — its deadline was computed from the time the stopped clock had last stored", e.Burst, cs.G, cs.Idle/c14Ms, e.G, cs.D/c14Ms, cs.PeriodNs/c14Ms, e.El/1000, len(early)),
				Expected: fmt.Sprintf("no timeout error before roughly d (certainly not before d/4 = %dms)", cs.D/4/c14Ms), Got: fmt.Sprintf("timeout error after %dns", e.El)}
		}
	}
	return outs
}

func c14BurstGen(rng *rand.Rand, i int) c14Burst {
	d := []int64{80, 100, 150}[rng.Intn(3)] * c14Ms
	cs := c14Burst{PeriodNs: c14Ms, D: d, Idle: d + []int64{20, 60}[rng.Intn(2)]*c14Ms, G: []int{2, 4, 8, 12}[rng.Intn(4)], Hour: rng.Intn(2) == 0, Bursts: 6}
	if i%5 == 4 {
		cs.NoStop, cs.Bursts, cs.Idle = true, 2, d+c14Second+40*c14Ms
	}
	return cs
}

func c14BurstLeg(c *core.Ctx) {
	core.RunLeg(c, core.Leg[c14Burst]{
		Name: "B", Kind: "oracle",
		Rule:   "bursts: StopTimeoutClock (or, every 5th case, letting the clock run out: idle > d + 1s + period), an idle gap longer than timeout + period, then 2-12 goroutines released from a spin barrier, each into a catastrophic (a+)+$ match with MatchTimeout 80-150ms on its own warmed Regexp, in half of the cases together with an instant match whose MatchTimeout is one hour (opens the lock-free path end <= clockEnd); 6 bursts per case. Oracle: every call returns a timeout error, none after less than d/4 of wall-clock time (a deadline computed from the stale time of the stopped clock fires within microseconds; no scheduling delay can explain that). Lean: Props.C14.conc_no_early_deadline over Model/ClockConc.lean (makeDeadline in atomic steps, all interleavings). non-trivial = more than one goroutine",
		Corpus: []c14Burst{{PeriodNs: c14Ms, D: 100 * c14Ms, Idle: 130 * c14Ms, G: 8, Bursts: 12}, {PeriodNs: c14Ms, D: 100 * c14Ms, Idle: 130 * c14Ms, G: 8, Hour: true, Bursts: 12}},
		N:      c.N(4, 60), Gen: c14BurstGen, Check: c14BurstCheck,
	})
}
