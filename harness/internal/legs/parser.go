package legs

import (
	"encoding/hex"
	"errors"
	"fmt"
	"math/rand"
	"regexp"
	"sort"
	"strconv"
	"strings"
	"sync"
	"unicode"

	"rvharness/internal/core"
	"rvharness/internal/gen"

	regexp2 "github.com/dlclark/regexp2/v2"
	"github.com/dlclark/regexp2/v2/syntax"
)

// Leg Pr — the pattern parser against its Lean model (lean/RegexVerif/Model/Parser.lean).
//
// For a pattern (any byte string) and an option set (any subset of the 9 option bits,
// MaintainCaptureOrder): Lean `Parser.parse` vs `syntax.VerifParseRaw` — the tree exactly as the
// parser builds it (no reductions) and the capture tables, or the ErrorCode. Second, model-free
// oracle: `Parse(p)` == `VerifReduce(VerifParseRaw(p))` (ties the raw tree to the real pipeline).

type prCase struct {
	PatHex string `json:"pattern_hex"`
	Opts   int32  `json:"opts"`
	Order  bool   `json:"capture_order,omitempty"`
	Src    string `json:"src,omitempty"` // which generator produced it
}

// snippets aimed at the parser's branches and at every ErrorCode
var prForms = []string{
	`(?<0>a)`, `(?<1>a)`, `(?<01>a)`, `(?<9>a)`, `(?<n>a)`, `(?'n'a)`, `(?P<n>a)`, `(?P=n)`, `(?P=`, `(?P=1)`, `(?P<1>a)`, `(?P<n`, `(?Pa)`,
	`(?<n-m>a)`, `(?<-n>a)`, `(?<n-1>a)`, `(?<-1>a)`, `(?<n-`, `(?<n-?>`, `(?<n-m`, `(?<n-9>a)`, `(?<n-zz>a)`, `(?<n x>a)`, `(?<?>a)`, `(?<>a)`, `(?'=a)`, `(?<`, `(?'`,
	`(?(1)a|b)`, `(?(1)a|b|c)`, `(?(n)a|b)`, `(?(9)a)`, `(?(1`, `(?(1a)b)`, `(?(zz)a|b)`, `(?(?=a)b|c)`, `(?(?<=a)b|c)`, `(?(?#c)a)`, `(?('n')a)`, `(?(?<n>a)b)`, `(?(?<!a)b)`, `(?(a)b|c|d|e)`, `(?()a)`, `(?(`, `(?((?P=n)a)b)`,
	`(?=a)`, `(?!a)`, `(?<=a)`, `(?<!a)`, `(?>a)`, `(?:a)`, `(?i)`, `(?i:a)`, `(?-i)`, `(?im-sx:a)`, `(?x) a #c` + "\n", `(?n)`, `(?u)`, `(?r)`, `(?e)`, `(?+i-m+s)`, `(?i`, `(?i-`, `(?)`, `(?`, `(?#c)`, `(?#c`, `(?z)`,
	`a*`, `a+?`, `a??`, `a{2}`, `a{2,}`, `a{2,3}?`, `a{3,2}`, `a{2147483648}`, `a{2147483647}`, `a{,3}`, `a{2`, `a{2,`, `a{2,x}`, `a{x}`, `{2}`, `*`, `a**`, `a{2}{3}`, `a{0}`, `a{1}`, `a{1,1}`, `a{0,0}`, `a{64}`, `a{65}`, `(a){2}`, `\w{2}`, `.{3}`, `a {2}`, `a(?#c)*`, `a #c` + "\n*",
	`\b`, `\B`, `\A`, `\G`, `\Z`, `\z`, `\w`, `\W`, `\s`, `\S`, `\d`, `\D`, `\p{L}`, `\P{Lu}`, `\pL`, `\pZ`, `\p{Ll}`, `\p{IsGreek}`, `\p{Greek}`, `\p{sc=Greek}`, `\p{zz}`, `\p{`, `\p{L`, `\p`, `\pé`, `\p(`, `\px`, `\P{Lt}`,
	`\1`, `\2`, `\9`, `\10`, `\11`, `\81`, `\k<n>`, `\k'n'`, `\k<1>`, `\k<9>`, `\k<zz>`, `\k<`, `\k`, `\kx`, `\k<n`, `\k<1x`, `\<n>`, `\<1>`, `\'n'`, `\<9>`, `\<`, `\<n`, `\2147483648`, `\k<2147483648>`,
	`\x41`, `\x4`, `\xg`, `\x{41}`, `\x{}`, `\x{110000}`, `\x{12`, `\x{1g}`, `A`, `\u004`, `\u{41}`, `\u{D800}`, `\uD800`, `\uD800{2}`, `\cA`, `\ca`, `\c`, `\c1`, `\cé`, `\0`, `\07`, `\101`, `\400`, `\777`, `\08`, `\a`, `\e`, `\f`, `\n`, `\r`, `\t`, `\v`, `\_`, `\q`, `\é`, `\-`, `\ `, `\#`, `\`,
	`[a-c]`, `[^a]`, `[]a]`, `[]`, `[^]`, `[a`, `[a-`, `[a-]`, `[-a]`, `[z-a]`, `[a-\d]`, `[\d-a]`, `[a-\p{L}]`, `[a-\P{L}]`, `[\p{L}-a]`, `[\w\s\D]`, `[a-z-[b]]`, `[a-z-[b]c]`, `[a-[b]]`, `[a-z-[b-d-[c]]]`, `[-[b]]`, `[a\-[b]]`, `[\x41-\x43]`, `[a-\x{63}]`, `[\cA-\cC]`, `[\b]`, `[\a-\e]`, `[\q]`, `[\1]`, `[\8]`,
	`[[:alpha:]]`, `[[:^alpha:]]`, `[[:word:]]`, `[[:^word:]]`, `[[:zz:]]`, `[[:alpha:]a]`, `[a[:digit:]]`, `[[:alpha:`, `[[:alpha]`, `[[:]]`, `[a-[:alpha:]]`, `[[:space:][:punct:]]`, `[[:xdigit:][:^cntrl:]]`,
	`[\p{Lu}]`, `[\P{Ll}\p{Lt}]`, `[\p{Nd}\P{Nd}]`, `[\pL]`, `[\p{zz}]`, `[\W\w]`, `[\x00-\x{10FFFF}]`, `[^\x00-\x{10FFFE}]`, `[\x01-\x{10FFFF}]`, `[\x00-ab-\x{10FFFF}\w]`, `[\x00-ab-\x{10FFFF}\d]`, `[A-Za-zK]`, `[k-s]`, `[K]`, `[ǅ]`,
	`^`, `$`, `.`, `|`, `)`, `(`, `()`, `(|)`, `a|b|c`, `(a|b)|c`, `((a))`, `(a)(b)\2\1`, ` `, `#`, "\n", "a b", `ab`, `abc*`, `k`, `K`, `ǅ`, `é`, `İ`, `ı`, "😀", `a😀+`, `{`, `}`, `{a}`, `,`,
}

func prGen(rng *rand.Rand, i int) prCase {
	loadHarvest()
	var pat, src string
	ro, o := randRegexOptions(rng, true)
	opts := int32(ro)
	switch rng.Intn(10) {
	case 0, 1, 2:
		pat, src = gen.Random(rng, fullConfig(rng, o)).Print(o), "ast"
	case 3, 4:
		pat, src = c10Mutate(rng, gen.Random(rng, fullConfig(rng, o)).Print(o)), "ast-mutated"
	case 5:
		pat, src = harvestedIn[rng.Intn(len(harvestedIn))], "harvest"
		if rng.Intn(2) == 0 {
			pat, src = c10Mutate(rng, pat), "harvest-mutated"
		}
	case 6:
		var sb strings.Builder
		for k := rng.Intn(8); k > 0; k-- {
			sb.WriteString(c10Meta[rng.Intn(len(c10Meta))])
			if rng.Intn(2) == 0 {
				sb.WriteByte("abAB1 "[rng.Intn(6)])
			}
		}
		pat, src = sb.String(), "meta"
	default:
		var sb strings.Builder
		if rng.Intn(3) == 0 {
			sb.WriteString([]string{`(a)`, `(?<n>a)`, `(?<m>b)(c)`, `(?<n>a)(?<n>b)`, `(?<2>a)`, `(a)(?<5>b)`}[rng.Intn(6)])
		}
		for k := 1 + rng.Intn(4); k > 0; k-- {
			sb.WriteString(prForms[rng.Intn(len(prForms))])
			if rng.Intn(3) == 0 {
				sb.WriteByte("abAB1 k"[rng.Intn(7)])
			}
		}
		pat, src = sb.String(), "forms"
		if rng.Intn(4) == 0 {
			pat, src = c10Mutate(rng, pat), "forms-mutated"
		}
	}
	// option bits: the generator's own half of the time, otherwise an arbitrary subset of the 9 bits
	if rng.Intn(2) == 0 {
		opts = 0
		for _, b := range allOptionBits {
			if rng.Intn(4) == 0 {
				opts |= int32(b)
			}
		}
	}
	if len(pat) > 200 {
		pat = pat[:200]
	}
	return prCase{PatHex: hex.EncodeToString([]byte(pat)), Opts: opts, Order: rng.Intn(5) == 0, Src: src}
}

// ---------------------------------------------------------------------------------------------
// error codes

var prErrNames = map[syntax.ErrorCode]string{
	syntax.ErrInternalError: "internalError", syntax.ErrUnterminatedComment: "unterminatedComment", syntax.ErrInvalidCharRange: "invalidCharRange",
	syntax.ErrInvalidRepeatSize: "invalidRepeatSize", syntax.ErrInvalidUTF8: "invalidUTF8", syntax.ErrCaptureGroupOutOfRange: "captureGroupOutOfRange",
	syntax.ErrUnexpectedParen: "unexpectedParen", syntax.ErrMissingParen: "missingParen", syntax.ErrMissingBrace: "missingBrace",
	syntax.ErrInvalidRepeatOp: "invalidRepeatOp", syntax.ErrMissingRepeatArgument: "missingRepeatArgument", syntax.ErrConditionalExpression: "conditionalExpression",
	syntax.ErrTooManyAlternates: "tooManyAlternates", syntax.ErrUnrecognizedGrouping: "unrecognizedGrouping", syntax.ErrInvalidGroupName: "invalidGroupName",
	syntax.ErrInvalidECMAGroupName: "invalidECMAGroupName", syntax.ErrDuplicateGroupName: "duplicateGroupName", syntax.ErrCapNumNotZero: "capNumNotZero",
	syntax.ErrUndefinedBackRef: "undefinedBackRef", syntax.ErrUndefinedNameRef: "undefinedNameRef", syntax.ErrAlternationCantCapture: "alternationCantCapture",
	syntax.ErrAlternationCantHaveComment: "alternationCantHaveComment", syntax.ErrMalformedReference: "malformedReference", syntax.ErrUndefinedReference: "undefinedReference",
	syntax.ErrIllegalEndEscape: "illegalEndEscape", syntax.ErrMalformedSlashP: "malformedSlashP", syntax.ErrIncompleteSlashP: "incompleteSlashP",
	syntax.ErrUnknownSlashP: "unknownSlashP", syntax.ErrUnrecognizedEscape: "unrecognizedEscape", syntax.ErrMissingControl: "missingControl",
	syntax.ErrUnrecognizedControl: "unrecognizedControl", syntax.ErrTooFewHex: "tooFewHex", syntax.ErrInvalidHex: "invalidHex",
	syntax.ErrMalformedNameRef: "malformedNameRef", syntax.ErrBadClassInCharRange: "badClassInCharRange", syntax.ErrShorthandClassInCharRange: "shorthandClassInCharRange",
	syntax.ErrUnterminatedBracket: "unterminatedBracket", syntax.ErrSubtractionMustBeLast: "subtractionMustBeLast", syntax.ErrReversedCharRange: "reversedCharRange",
}

// ---------------------------------------------------------------------------------------------
// oracle rows

var prFixedCats = map[string]int{" ": 0, "W": 1, "Nd": 2, "Ll": 3, "Lu": 4, "Lt": 5}

var (
	prCatCache   = map[string]string{} // name as written -> canonical name ("" = unknown)
	prCatCacheMu sync.Mutex
)

// prCanonicalCat: the canonical category name the engine uses for a name as written in \p{name},
// learned by parsing `\p{name}` alone (the parser itself is the oracle for names only).
func prCanonicalCat(name string) (canon string) {
	prCatCacheMu.Lock()
	defer prCatCacheMu.Unlock()
	if c, ok := prCatCache[name]; ok {
		return c
	}
	defer func() {
		if r := recover(); r != nil {
			canon = ""
		}
		prCatCache[name] = canon
	}()
	tree, err := syntax.Parse(`\p{`+name+`}`, syntax.ParseOptions{})
	if err != nil {
		return ""
	}
	var find func(n *syntax.RegexNode) string
	find = func(n *syntax.RegexNode) string {
		if n.Set != nil {
			d := n.Set.VerifDump()
			if len(d.Categories) > 0 {
				return d.Categories[0].Cat
			}
		}
		for _, k := range n.Children {
			if s := find(k); s != "" {
				return s
			}
		}
		return ""
	}
	return find(tree.Root)
}

func prNameChar(r rune) bool { return isWordCharStd(r) || r == '-' || r == '=' }

func prECMAStart(r rune) bool {
	return r == '$' || r == '_' || unicode.In(r, unicode.L, unicode.Nl, unicode.Other_ID_Start)
}
func prECMAPart(r rune) bool {
	return prECMAStart(r) || r == 0x200c || r == 0x200d || unicode.In(r, unicode.Mn, unicode.Mc, unicode.Nd, unicode.Pc, unicode.Other_ID_Continue)
}
func prParticipates(r rune) bool {
	return !unicode.In(r, unicode.Pe, unicode.Pc, unicode.Cc, unicode.Pd, unicode.Nd, unicode.Pf, unicode.Pi, unicode.Zl, unicode.Ps, unicode.No, unicode.Po, unicode.Zp, unicode.Zs)
}

var prEscRe = regexp.MustCompile(`\\x([0-9a-fA-F]{2})|\\[xu]\{([0-9a-fA-F]{1,6})\}|\\u([0-9a-fA-F]{4})|\\([0-7]{1,3})|\\c(.)`)

// prPoints: the runes the parser can come to look at: the pattern's own runes and the values of
// its numeric / control / letter escapes (read leniently).
func prPoints(rs []rune) []rune {
	seen := map[rune]bool{}
	var out []rune
	add := func(r rune) {
		if r >= 0 && r <= unicode.MaxRune && !seen[r] {
			seen[r] = true
			out = append(out, r)
		}
	}
	for _, r := range rs {
		add(r)
	}
	for _, r := range []rune{7, 8, 9, 10, 11, 12, 13, 27, '-'} {
		add(r)
	}
	for _, m := range prEscRe.FindAllStringSubmatch(string(rs), -1) {
		for k, base := range map[int]int{1: 16, 2: 16, 3: 16, 4: 8} {
			if m[k] != "" {
				if v, err := strconv.ParseInt(m[k], base, 32); err == nil {
					add(rune(v))
					add(rune(v & 0xff))
				}
			}
		}
		if m[5] != "" {
			c := []rune(m[5])[0]
			if c >= 'a' && c <= 'z' {
				c -= 32
			}
			add(c - '@')
		}
	}
	return out
}

type prCaseRows struct {
	lower, isLower, isUpper, orbit string
}

var (
	prFullOnce sync.Once
	prFullRows prCaseRows
)

func prCaseRowsFor(rs []rune) prCaseRows {
	var lo, il, iu, ob []string
	for _, r := range rs {
		if l := unicode.ToLower(r); l != r {
			lo = append(lo, fmt.Sprintf("(%d %d)", r, l))
		}
		if unicode.IsLower(r) {
			il = append(il, strconv.Itoa(int(r)))
		}
		if unicode.IsUpper(r) {
			iu = append(iu, strconv.Itoa(int(r)))
		}
		if orb := c16FoldOrbit(r); len(orb) > 1 {
			ob = append(ob, "("+strconv.Itoa(int(r))+" "+strings.Trim(core.SInts(orb[1:]), "()")+")")
		}
	}
	return prCaseRows{core.S("lower", lo...), core.S("islower", il...), core.S("isupper", iu...), core.S("orbit", ob...)}
}

func prFull() prCaseRows {
	prFullOnce.Do(func() {
		var rs []rune
		for r := rune(0); r <= unicode.MaxRune; r++ {
			if unicode.ToLower(r) != r || unicode.IsLower(r) || unicode.IsUpper(r) || unicode.SimpleFold(r) != r {
				rs = append(rs, r)
			}
		}
		prFullRows = prCaseRowsFor(rs)
	})
	return prFullRows
}

// prRequest builds the driver line for a case. full: the complete case tables instead of the rows
// for the runes near the pattern's own.
func prRequest(rs []rune, opts int32, order bool, full bool) (line string, catIDs map[string]int) {
	pts := prPoints(rs)
	// category names
	catIDs = map[string]int{}
	for k, v := range prFixedCats {
		catIDs[k] = v
	}
	var nameRows []string
	seenName := map[string]bool{}
	addName := func(name string) {
		if seenName[name] {
			return
		}
		seenName[name] = true
		canon := prCanonicalCat(name)
		if canon == "" {
			return
		}
		id, ok := catIDs[canon]
		if !ok {
			id = 6 + len(catIDs) - len(prFixedCats)
			catIDs[canon] = id
		}
		nameRows = append(nameRows, "("+core.SInts([]rune(name))+" "+strconv.Itoa(id)+")")
	}
	for i, r := range rs {
		if (r == 'p' || r == 'P') && i+1 < len(rs) {
			if prNameChar(rs[i+1]) {
				addName(string(rs[i+1]))
			}
			if rs[i+1] == '{' {
				j := i + 2
				for j < len(rs) && prNameChar(rs[j]) {
					j++
				}
				if j > i+2 {
					addName(string(rs[i+2 : j]))
				}
			}
		}
	}
	// per-rune predicates
	var word, es, ep, part []rune
	for _, r := range pts {
		if isWordCharStd(r) {
			word = append(word, r)
		}
		if prECMAStart(r) {
			es = append(es, r)
		}
		if prECMAPart(r) {
			ep = append(ep, r)
		}
		if prParticipates(r) {
			part = append(part, r)
		}
	}
	// category membership near the points (only `canonicalize`'s one-rune-gap rule asks)
	var catRows []string
	near := map[rune]bool{}
	for _, r := range pts {
		for d := rune(-1); d <= 1; d++ {
			if r+d >= 0 && r+d <= unicode.MaxRune {
				near[r+d] = true
			}
		}
	}
	for name, id := range catIDs {
		var in []rune
		for r := range near {
			if ok, known := c16CatMem(name, r); known && ok {
				in = append(in, r)
			}
		}
		if len(in) > 0 {
			sort.Slice(in, func(a, b int) bool { return in[a] < in[b] })
			catRows = append(catRows, "("+strconv.Itoa(id)+" "+strings.Trim(core.SInts(in), "()")+")")
		}
	}
	sort.Strings(catRows)
	var cr prCaseRows
	if full {
		cr = prFull()
	} else {
		// the points, their lowercase images and the Latin block hull
		set := map[rune]bool{}
		for _, r := range pts {
			set[r] = true
			set[unicode.ToLower(r)] = true
			for _, e := range c16FoldOrbit(r) {
				set[e] = true
			}
		}
		for r := rune(0); r < 0x250; r++ {
			set[r] = true
		}
		var l []rune
		for r := range set {
			l = append(l, r)
		}
		sort.Slice(l, func(a, b int) bool { return l[a] < l[b] })
		cr = prCaseRowsFor(l)
	}
	line = core.S("c18", "parser", core.S("pat", strings.Trim(core.SInts(rs), "()")), core.S("opts", strconv.Itoa(int(opts))), core.S("mco", core.SBool(order)),
		core.S("word", strings.Trim(core.SInts(word), "()")), core.S("estart", strings.Trim(core.SInts(es), "()")), core.S("epart", strings.Trim(core.SInts(ep), "()")),
		core.S("part", strings.Trim(core.SInts(part), "()")), cr.lower, cr.isLower, cr.isUpper, cr.orbit,
		core.S("cat", catRows...), core.S("catname", nameRows...))
	return strings.ReplaceAll(line, " )", ")"), catIDs
}

// ---------------------------------------------------------------------------------------------
// the Go side in the driver's vocabulary

func prSetSexp(d *syntax.VerifCharSet, ids map[string]int, sb *strings.Builder) {
	sb.WriteString("(set (rs")
	for _, r := range d.Ranges {
		fmt.Fprintf(sb, " %d %d", r[0], r[1])
	}
	sb.WriteString(") (cs")
	for _, c := range d.Categories {
		id, ok := ids[c.Cat]
		if !ok {
			id = 999
		}
		fmt.Fprintf(sb, " %d %s", id, core.SBool(c.Negate))
	}
	fmt.Fprintf(sb, ") %s %s", core.SBool(d.Negate), core.SBool(d.Anything))
	if d.Sub != nil {
		sb.WriteByte(' ')
		prSetSexp(d.Sub, ids, sb)
	}
	sb.WriteByte(')')
}

func prNodeSexp(n *syntax.RegexNode, ids map[string]int, sb *strings.Builder, types map[syntax.NodeType]bool) {
	types[n.T] = true
	fmt.Fprintf(sb, "(n %d %d %d %s ", n.T, int32(n.Options), n.Ch, core.SInts(n.Str))
	if n.Set == nil {
		sb.WriteString("nil")
	} else {
		prSetSexp(n.Set.VerifDump(), ids, sb)
	}
	fmt.Fprintf(sb, " %d %d (", n.M, n.N)
	for i, k := range n.Children {
		if i > 0 {
			sb.WriteByte(' ')
		}
		prNodeSexp(k, ids, sb, types)
	}
	sb.WriteString("))")
}

func prRuneLess(a, b []rune) bool {
	for i := 0; i < len(a) && i < len(b); i++ {
		if a[i] != b[i] {
			return a[i] < b[i]
		}
	}
	return len(a) < len(b)
}

func prTablesSexp(t *syntax.RegexTree) string {
	var caps []int
	for k := range t.Caps {
		caps = append(caps, k)
	}
	sort.Ints(caps)
	numlist := "nil"
	if t.Capnumlist != nil {
		numlist = core.SInts(t.Capnumlist)
	}
	names := "nil"
	if t.Capnames != nil {
		var ks [][]rune
		for k := range t.Capnames {
			ks = append(ks, []rune(k))
		}
		sort.Slice(ks, func(a, b int) bool { return prRuneLess(ks[a], ks[b]) })
		parts := make([]string, len(ks))
		for i, k := range ks {
			parts[i] = "(" + core.SInts(k) + " " + strconv.Itoa(t.Capnames[string(k)]) + ")"
		}
		names = "(" + strings.Join(parts, " ") + ")"
	}
	list := "nil"
	if t.Caplist != nil {
		parts := make([]string, len(t.Caplist))
		for i, s := range t.Caplist {
			parts[i] = core.SRunes(s)
		}
		list = "(" + strings.Join(parts, " ") + ")"
	}
	return core.S("tables", core.S("caps", strings.Trim(core.SInts(caps), "()")), numlist, strconv.Itoa(t.Captop), names, list)
}

type prGoResult struct {
	ans    string
	code   string // error code name, "" when ok
	types  map[syntax.NodeType]bool
	panic_ string
	pipe   string // result of the model-free pipeline oracle ("" = agrees)
}

func prRunGo(pat string, po syntax.ParseOptions, ids map[string]int) (res prGoResult) {
	res.types = map[syntax.NodeType]bool{}
	defer func() {
		if r := recover(); r != nil {
			res.panic_ = fmt.Sprint(r)
		}
	}()
	raw, err := syntax.VerifParseRaw(pat, po)
	if err != nil {
		var pe *syntax.Error
		if errors.As(err, &pe) {
			res.code = prErrNames[pe.Code]
			if res.code == "" {
				res.code = "unknown:" + string(pe.Code)
			}
		} else {
			res.code = "not-a-syntax-error"
		}
		res.ans = "(error " + res.code + ")"
	} else {
		var sb strings.Builder
		sb.WriteString("(ok ")
		prNodeSexp(raw.Root, ids, &sb, res.types)
		sb.WriteByte(' ')
		sb.WriteString(prTablesSexp(raw))
		sb.WriteByte(')')
		res.ans = strings.ReplaceAll(sb.String(), "(caps )", "(caps)")
	}
	// model-free: Parse == VerifReduce ∘ VerifParseRaw
	full, ferr := syntax.Parse(pat, po)
	switch {
	case (ferr == nil) != (err == nil):
		res.pipe = fmt.Sprintf("Parse error %v, VerifParseRaw error %v", ferr, err)
	case err != nil:
		if ferr.Error() != err.Error() {
			res.pipe = fmt.Sprintf("Parse error %v, VerifParseRaw error %v", ferr, err)
		}
	default:
		red := &syntax.RegexTree{Root: syntax.VerifReduce(raw.Root)}
		if a, b := full.Dump(), red.Dump(); a != b {
			res.pipe = "Parse:\n" + a + "VerifReduce(VerifParseRaw):\n" + b
		} else if a, b := prTablesSexp(full), prTablesSexp(raw); a != b {
			res.pipe = "tables differ: " + a + " vs " + b
		}
	}
	return res
}

// first differing node type (or "tables" / "outcome") between two answers, for the failure key
func prDiffKey(lean, goAns string) string {
	if strings.HasPrefix(lean, "(error") || strings.HasPrefix(goAns, "(error") || !strings.HasPrefix(lean, "(ok") {
		f := func(s string) string {
			s = strings.Trim(s, "()")
			if len(s) > 40 {
				s = s[:40]
			}
			return strings.ReplaceAll(s, " ", "-")
		}
		if strings.HasPrefix(lean, "(ok") {
			return "lean-ok:go-" + f(goAns)
		}
		if strings.HasPrefix(goAns, "(ok") {
			return "go-ok:lean-" + f(lean)
		}
		return "lean-" + f(lean) + ":go-" + f(goAns)
	}
	i := 0
	for i < len(lean) && i < len(goAns) && lean[i] == goAns[i] {
		i++
	}
	j := strings.LastIndex(goAns[:i], "(n ")
	if t := strings.Index(goAns[:i], "(tables"); t >= 0 {
		return "tables"
	}
	if j < 0 {
		return "tree"
	}
	f := strings.Fields(goAns[j+3:])
	if len(f) > 0 {
		return "tree:nodetype-" + f[0]
	}
	return "tree"
}

func prOptBuckets(opts int32, order bool) []string {
	var b []string
	names := []string{"i", "m", "n", "s", "x", "rtl", "ecma", "re2", "u"}
	for k, bit := range allOptionBits {
		if opts&int32(bit) != 0 {
			b = append(b, "opt-"+names[k])
		}
	}
	if opts == 0 {
		b = append(b, "opt-none")
	}
	if order {
		b = append(b, "opt-capture-order")
	}
	return b
}

func prCheck(c *core.Ctx, cases []prCase) []core.Outcome {
	outs := make([]core.Outcome, len(cases))
	lines := make([]string, len(cases))
	goRes := make([]prGoResult, len(cases))
	pats := make([][]rune, len(cases))
	fullSent := make([]bool, len(cases))
	for i, cs := range cases {
		pat := unhex(cs.PatHex)
		rs := []rune(pat)
		pats[i] = rs
		o := &outs[i]
		o.Key = cs.PatHex + "/" + strconv.Itoa(int(cs.Opts)) + core.SBool(cs.Order)
		o.Nontrivial = len(rs) > 0
		o.Buckets = append(o.Buckets, "src-"+cs.Src)
		o.Buckets = append(o.Buckets, prOptBuckets(cs.Opts, cs.Order)...)
		ro := syntax.RegexOptions(cs.Opts)
		// complete case tables at once when the shorthand tables of ECMAScript / RE2 can meet IgnoreCase
		fullSent[i] = ro&(syntax.ECMAScript|syntax.RE2) != 0 && (ro&syntax.IgnoreCase != 0 || strings.ContainsAny(pat, "iI"))
		line, ids := prRequest(rs, cs.Opts, cs.Order, fullSent[i])
		lines[i] = line
		goRes[i] = prRunGo(pat, syntax.ParseOptions{RegexOptions: ro, MaintainCaptureOrder: cs.Order}, ids)
		g := &goRes[i]
		if g.panic_ != "" {
			o.Fail = &core.Failure{Kind: "impl-violation", Key: "panic", Summary: "the parser panicked on pattern " + strconv.Quote(pat) + " options " + strconv.Itoa(int(cs.Opts)), Expected: "a tree or a parse error", Got: g.panic_}
			continue
		}
		if g.pipe != "" {
			o.Fail = &core.Failure{Kind: "correspondence-break", Key: "hook:parse-vs-reduce-raw", Summary: "Parse(p) differs from VerifReduce(VerifParseRaw(p)) for " + strconv.Quote(pat) + " options " + strconv.Itoa(int(cs.Opts)), Expected: "equal dumps", Got: g.pipe}
			continue
		}
		if g.code != "" {
			o.Buckets = append(o.Buckets, "err-"+g.code)
		} else {
			o.Buckets = append(o.Buckets, "ok")
			for t := range g.types {
				o.Buckets = append(o.Buckets, "nt-"+strconv.Itoa(int(t)))
			}
		}
	}
	res, err := c.RunDriver(lines)
	if err != nil {
		for i := range outs {
			if outs[i].Fail == nil {
				outs[i].Fail = core.DriverFailure(err)
				break
			}
		}
		return outs
	}
	// second round: the complete case tables for the cases that disagreed with partial ones
	var retry []int
	var rlines []string
	for i := range cases {
		if outs[i].Fail == nil && res[i] != goRes[i].ans && !fullSent[i] {
			retry = append(retry, i)
			l, _ := prRequest(pats[i], cases[i].Opts, cases[i].Order, true)
			rlines = append(rlines, l)
		}
	}
	if len(retry) > 0 {
		rres, err := c.RunDriver(rlines)
		if err == nil {
			for k, i := range retry {
				res[i] = rres[k]
				outs[i].Buckets = append(outs[i].Buckets, "full-case-tables-needed")
			}
		}
	}
	for i, cs := range cases {
		if outs[i].Fail != nil {
			continue
		}
		if res[i] != goRes[i].ans {
			lean, goAns := res[i], goRes[i].ans
			key := prDiffKey(lean, goAns)
			clip := func(s string) string {
				if len(s) > 3000 {
					return s[:3000] + "…"
				}
				return s
			}
			outs[i].Fail = &core.Failure{Kind: "correspondence-break", Key: "parser:" + key, Summary: "Lean Parser.parse differs from syntax.VerifParseRaw for pattern " + strconv.Quote(string(pats[i])) + " options " + strconv.Itoa(int(cs.Opts)) + " capture-order " + core.SBool(cs.Order), Expected: clip(lean), Got: clip(goAns)}
		}
	}
	return outs
}

// prCorpus: minimised past disagreements and one witness per parser quirk
var prCorpus = func() []prCase {
	mk := func(p string, o regexp2.RegexOptions, order bool) prCase {
		return prCase{PatHex: hex.EncodeToString([]byte(p)), Opts: int32(o), Order: order, Src: "corpus"}
	}
	return []prCase{
		mk(`a(b|c)*?\d`, 0, false),
		mk(`(?i)k[a-c]\x41`, 0, false),
		mk(`(?<n>a)(?<-n>b)(?(n)c|d)\k<n>`, 0, false),
		mk(`(?(?=x)x|y)(c)`, 0, false),
		mk(`\uD800{2}`, regexp2.ECMAScript, false),
		mk(`[a-z-[b]]`, regexp2.IgnoreCase, false),
		mk(`(?x) a b # c`+"\n"+` {2}`, 0, false),
		mk(`(?<2147483647>a)`, 0, false),
		mk(`(a)(?<5>b)(?<x>c)`, 0, true),
		// D50: RE2 (?P=name) right after (?( is not a back reference there
		mk(`(?<n>a)(?(?P=n)b)`, regexp2.RE2, false),
		mk(`(?(?P=n)b|c)(?P<n>a)`, regexp2.RE2, false),
		mk(`(?<n>a)(?:(?P=n))(?(n)b|c)`, regexp2.RE2, false),
	}
}()

func parserLeg(c *core.Ctx, quick, thorough int) {
	core.RunLeg(c, core.Leg[prCase]{
		Name: "Pr", Kind: "correspondence+oracle", Batch: 400,
		Rule:   "patterns: printed random full-syntax ASTs (every group kind, lookarounds, atomic, conditionals, inline options, (?x) blanks and comments, all quantifier spellings, escapes, classes), their mutations (insert/delete/replace/duplicate/truncate/wrap with metacharacter sequences), harvested literals and their mutations, concatenations of metacharacter sequences, concatenations of ~330 snippets aimed at every parser branch and ErrorCode; options: the generator's own or a random subset of the 9 option bits, MaintainCaptureOrder in a fifth of the cases. Compared: Lean Parser.parse vs syntax.VerifParseRaw — exact equality of the raw tree (type, options, Ch, Str, set with ranges/categories/negate/anything/subtraction, M, N, children) and of the tables (Caps, Capnumlist, Captop, Capnames, Caplist), or the same ErrorCode; Lean fault/fuel answers never agree with anything. Model-free: Parse(p) dump and tables == VerifReduce(VerifParseRaw(p)); no panic. non-trivial = non-empty pattern; distinct by (pattern, options)",
		Corpus: prCorpus, N: c.N(quick, thorough), Gen: prGen, Check: prCheck,
	})
}

// development aid: `rv run PARSER` runs leg Pr alone (the registered properties C10, C18, C19 include it)
func init() {
	core.Register("PARSER", func(c *core.Ctx) { parserLeg(c, 4000, 150000) })
}
