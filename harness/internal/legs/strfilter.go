package legs

import (
	"encoding/hex"
	"fmt"
	"math/rand"
	"strings"
	"unicode/utf8"

	"rvharness/internal/core"
	"rvharness/internal/gen"

	regexp2 "github.com/dlclark/regexp2/v2"
	"github.com/dlclark/regexp2/v2/syntax"
)

// Leg Sf: the raw-string (byte-level) prefix filters of stringprefixfilter.go against their Lean model
// (Model/StringFilter.lean) and against a model-free oracle.
//
// Per case (pattern, options, input as RAW BYTES): what newStringPrefixFilter reads of the compiled program is
// exported — RightToLeft, UsesStartAnchor, the find mode, MinRequiredLength, the literal strings as bytes, the
// first fixed-distance set, the fixed-distance literal, the literal after the loop — and the Lean driver answers
// which filter the model installs and what it returns for every startAt in 0..len+1. The Go side calls the
// real filter through VerifStringPrefixFilter at the same offsets. (installed, kind, candidate, ok) must be EQUAL.
// Oracle (no model): at every startAt on a rune boundary the candidate never lies beyond the byte offset of
// the first position >= startAt at which the program (single-position attempts on the decoded runes) succeeds,
// it is a rune boundary >= startAt, and ok=false implies no position >= startAt succeeds.

func sfBytes(tag string, s string) string {
	var b strings.Builder
	b.WriteByte('(')
	b.WriteString(tag)
	for i := 0; i < len(s); i++ {
		fmt.Fprintf(&b, " %d", s[i])
	}
	b.WriteByte(')')
	return b.String()
}

func sfLine(code *syntax.Code, input string) string {
	var parts []string
	add := func(s string) { parts = append(parts, s) }
	add(core.S("rtl", core.SBool(code.RightToLeft)))
	add(core.S("usesstart", core.SBool(code.UsesStartAnchor())))
	fo := code.FindOptimizations
	add(core.S("hasopts", core.SBool(fo != nil)))
	if fo == nil {
		fo = &syntax.FindOptimizations{}
	}
	add(core.S("mode", fo.FindMode.String()))
	add(core.S("minlen", fmt.Sprint(fo.MinRequiredLength)))
	add(sfBytes("prefix", fo.LeadingPrefix))
	var pres []string
	for _, p := range fo.LeadingPrefixes {
		bs := make([]int, len(p))
		for i := 0; i < len(p); i++ {
			bs[i] = int(p[i])
		}
		pres = append(pres, core.SInts(bs))
	}
	add(core.S("prefixes", pres...))
	var sets []string
	for _, s := range fo.FixedDistanceSets {
		rg := "(range)"
		if s.Range != nil {
			rg = fmt.Sprintf("(range %d %d)", s.Range.First, s.Range.Last)
		}
		sets = append(sets, core.S("set", c03Runes("chars", s.Chars), core.S("neg", core.SBool(s.Negated)), rg, core.S("dist", fmt.Sprint(s.Distance))))
	}
	add(core.S("sets", sets...))
	add(core.S("fchar", fmt.Sprint(int(fo.FixedDistanceLiteral.C))))
	add(sfBytes("fstring", fo.FixedDistanceLiteral.S))
	add(core.S("fdist", fmt.Sprint(fo.FixedDistanceLiteral.Distance)))
	if l := fo.LiteralAfterLoop; l != nil {
		add(core.S("lal", sfBytes("str", l.String), core.S("ci", core.SBool(l.StringIgnoreCase)), core.S("char", fmt.Sprint(int(l.Char))),
			c03Runes("chars", l.Chars), core.S("loop", core.SBool(l.LoopNode != nil && l.LoopNode.Set != nil))))
	} else {
		add("(lal)")
	}
	add(sfBytes("input", input))
	return "(c02 (strfilter " + strings.Join(parts, " ") + "))"
}

func sfRealFilter(re *regexp2.Regexp, s string, startAt int) (c int, ok, installed bool, panicked any) {
	defer func() {
		if r := recover(); r != nil {
			panicked = r
		}
	}()
	c, ok, installed = regexp2.VerifStringPrefixFilter(re, s, startAt)
	return
}

// sfAttempts: for every rune position of the decoded input, does a single-position attempt succeed?
// (nil, false) when an attempt errs (time-out, stack limit) or panics.
func sfAttempts(re *regexp2.Regexp, rt []rune) (hit []bool, ok bool) {
	defer func() {
		if r := recover(); r != nil {
			hit, ok = nil, false
		}
	}()
	hit = make([]bool, len(rt)+1)
	for p := 0; p <= len(rt); p++ {
		m, err := regexp2.VerifAttemptAt(re, rt, p, 0, false)
		if err != nil {
			return nil, false
		}
		hit[p] = m != nil
	}
	return hit, true
}

func sfCheck(c *core.Ctx, cases []engCase) []core.Outcome {
	outs := make([]core.Outcome, len(cases))
	cache := newEngCache()
	lines := make([]string, len(cases))
	goAns := make([]string, len(cases))
	modes := make([]string, len(cases))
	for i := range cases {
		cs := &cases[i]
		o := &outs[i]
		s := cs.str()
		o.Key = fmt.Sprintf("%d|%v|%s|%x", cs.Opts, cs.CodeGen, cs.Pattern, s)
		cp := cache.get(cs)
		if cp.err != nil {
			o.Buckets = append(o.Buckets, "compile-error")
			continue
		}
		re := cp.re
		code := regexp2.VerifCode(re)
		if code == nil {
			continue
		}
		mode := "none"
		if code.FindOptimizations != nil {
			mode = code.FindOptimizations.FindMode.String()
		}
		modes[i] = mode
		installed := regexp2.VerifHasStringPrefixFilter(re)
		type ans struct {
			c  int
			ok bool
		}
		var answers []ans
		var b strings.Builder
		if installed {
			b.WriteString("(ok KIND")
			for startAt := 0; startAt <= len(s)+1; startAt++ {
				cnd, ok, _, pv := sfRealFilter(re, s, startAt)
				if pv != nil {
					o.Fail = &core.Failure{Kind: "impl-violation", Key: "Sf:panic:" + mode,
						Summary:  fmt.Sprintf("the raw-string prefix filter panics: pattern %q opts %d codegen=%v input %q (hex %x) startAt %d", cs.Pattern, cs.Opts, cs.CodeGen, s, s, startAt),
						Expected: "no panic", Got: fmt.Sprint(pv)}
					break
				}
				answers = append(answers, ans{cnd, ok})
				fmt.Fprintf(&b, " (%d %s)", cnd, core.SBool(ok))
			}
			b.WriteByte(')')
		} else {
			b.WriteString("(ok none)")
		}
		if o.Fail != nil {
			continue
		}
		goAns[i] = b.String()
		lines[i] = sfLine(code, s)
		o.Nontrivial = installed && len(s) > 0
		if !utf8.ValidString(s) {
			o.Buckets = append(o.Buckets, "input=invalid-utf8")
		} else if len(s) != len([]rune(s)) {
			o.Buckets = append(o.Buckets, "input=multibyte")
		} else {
			o.Buckets = append(o.Buckets, "input=ascii")
		}
		if !installed {
			o.Buckets = append(o.Buckets, "filter=none:"+mode)
			continue
		}
		// model-free oracle
		rt := []rune(s)
		offs := byteOffsets(s)
		if len(offs) != len(rt)+1 {
			continue
		}
		hit, okAtt := sfAttempts(re, rt)
		if !okAtt {
			o.Buckets = append(o.Buckets, "oracle-skipped(attempt error)")
			continue
		}
		isBoundary := map[int]int{}
		for r, bo := range offs {
			isBoundary[bo] = r
		}
		for startAt := 0; startAt <= len(s) && o.Fail == nil; startAt++ {
			rs, onB := isBoundary[startAt]
			if !onB {
				continue
			}
			first := -1
			for p := rs; p <= len(rt); p++ {
				if hit[p] {
					first = p
					break
				}
			}
			a := answers[startAt]
			fail := func(what string) {
				firstB := -1
				if first >= 0 {
					firstB = offs[first]
				}
				o.Fail = &core.Failure{Kind: "impl-violation", Key: "Sf:" + mode,
					Summary:  fmt.Sprintf("the raw-string prefix filter %s: pattern %q opts %d codegen=%v input %q (hex %x) startAt %d; first position >= startAt at which the program succeeds: rune %d = byte %d", what, cs.Pattern, cs.Opts, cs.CodeGen, s, s, startAt, first, firstB),
					Expected: fmt.Sprintf("a candidate in [%d, %d] on a rune boundary", startAt, firstB), Got: fmt.Sprintf("(%d, %v)", a.c, a.ok)}
			}
			switch {
			case !a.ok && first >= 0:
				fail("answers 'no match possible' although a match exists")
			case a.ok && first >= 0 && a.c > offs[first]:
				fail("returns a candidate beyond the first match")
			case a.ok && a.c < startAt:
				fail("returns a candidate before startAt")
			case a.ok:
				if _, onB := isBoundary[a.c]; !onB {
					fail("returns a candidate that is not a rune boundary")
				}
			}
		}
	}
	var idx []int
	var send []string
	for i := range cases {
		if lines[i] != "" && outs[i].Fail == nil {
			idx = append(idx, i)
			send = append(send, lines[i])
		}
	}
	res, err := c.RunDriver(send)
	if err != nil {
		for i := range outs {
			if outs[i].Fail == nil {
				outs[i].Fail = core.DriverFailure(err)
				break
			}
		}
		return outs
	}
	for k, i := range idx {
		kind := "none"
		if f := strings.Fields(strings.Trim(res[k], "()")); len(f) >= 2 && f[0] == "ok" {
			kind = f[1]
		}
		want := strings.Replace(goAns[i], "(ok KIND", "(ok "+kind, 1)
		if goAns[i] != "(ok none)" {
			outs[i].Buckets = append(outs[i].Buckets, "filter="+kind+":"+modes[i])
		}
		if res[k] == want {
			continue
		}
		cs := &cases[i]
		key := "Sf:" + kind
		if (goAns[i] == "(ok none)") != (res[k] == "(ok none)") {
			key = "Sf:dispatch:" + modes[i]
		}
		s := cs.str()
		outs[i].Fail = &core.Failure{Kind: "correspondence-break", Key: key,
			Summary:  fmt.Sprintf("the raw-string prefix filter differs from its model (Model/StringFilter.lean): pattern %q opts %d codegen=%v input %q (hex %x); answer = (ok kind (candidate ok)… for startAt 0..len+1), (ok none) = no filter installed", cs.Pattern, cs.Opts, cs.CodeGen, s, s),
			Expected: res[k], Got: want}
	}
	return outs
}

// invalid and borderline byte sequences spliced into the inputs
var sfFragments = [][]byte{
	{0xff}, {0xfe}, {0xc3}, {0xe2, 0x82}, {0xf0, 0x9f, 0x98}, {0x80}, {0xbf}, {0xa9},
	{0xed, 0xa0, 0x80}, {0xed, 0xbf, 0xbf}, // surrogates
	{0xc0, 0xaf}, {0xc1, 0xbf}, {0xe0, 0x80, 0xaf}, {0xf0, 0x80, 0x80, 0xaf}, // overlong
	{0xf4, 0x90, 0x80, 0x80}, {0xf8, 0x88, 0x80, 0x80, 0x80}, // above U+10FFFF, five-byte form
	{0xef, 0xbf, 0xbd}, // a literal U+FFFD
	{0xef, 0xbf}, {0xe2}, {0xf0}, {0xf0, 0x9f},
}

type sfGen struct {
	queue []engCase
}

func (g *sfGen) next(rng *rand.Rand, i int) engCase {
	for len(g.queue) == 0 {
		g.fill(rng)
	}
	c := g.queue[len(g.queue)-1]
	g.queue = g.queue[:len(g.queue)-1]
	return c
}

func (g *sfGen) fill(rng *rand.Rand) {
	ro, o := randRegexOptions(rng, rng.Intn(8) == 0)
	cfg := fullConfig(rng, o)
	var ast *gen.Node
	if rng.Intn(5) != 0 {
		ast = biasedAst(rng, cfg)
	} else {
		ast = gen.Random(rng, cfg)
	}
	pat := ast.Print(o)
	codegen := rng.Intn(2) == 0
	for _, in := range gen.Inputs(rng, ast, 5, 10) {
		b := []byte(string(in))
		if rng.Intn(5) < 3 {
			for k := 1 + rng.Intn(3); k > 0; k-- {
				p := rng.Intn(len(b) + 1)
				f := sfFragments[rng.Intn(len(sfFragments))]
				b = append(b[:p:p], append(append([]byte{}, f...), b[p:]...)...)
			}
		}
		if len(b) > 40 {
			b = b[:40]
		}
		g.queue = append(g.queue, engCase{Pattern: pat, Opts: int32(ro), CodeGen: codegen, RawHex: hex.EncodeToString(b), Text: []rune(string(b)), Source: "ast"})
	}
}

// sfDirected: small-scope exhaustive inputs — every concatenation of up to maxLen tokens (byte sequences:
// literal pieces, multi-byte runes, invalid bytes) — for patterns chosen to reach every filter constructor.
func sfDirected(maxLen int) []engCase {
	ci := int32(regexp2.IgnoreCase)
	rtl := int32(regexp2.RightToLeft)
	sl := int32(regexp2.Singleline)
	type d struct {
		pat    string
		opts   int32
		cg     bool
		tokens []string
	}
	ds := []d{
		{`abc`, 0, false, []string{"a", "b", "c", "ab", "\xff"}},                               // LeadingString
		{"\u00e9a", 0, false, []string{"\u00e9", "a", "\xc3", "\xa9", "x"}},                    // … multi-byte literal, its bytes alone
		{"\U0001F601a", 0, false, []string{"\U0001F601", "a", "\xf0\x9f", "\x98\x81", "\xf0"}}, // … astral
		{`ab`, ci, false, []string{"a", "B", "A", "b", "\u212a"}},                              // LeadingString_OrdinalIgnoreCase
		{`k[ab]c`, ci, false, []string{"k", "K", "\u212a", "a", "c"}},                          // Kelvin sign
		{`(?:abc|abd|xy)`, 0, true, []string{"a", "b", "c", "d", "xy"}},                        // LeadingStrings, ASCII set scanner (shared first byte)
		{`(?:ear|hearts)`, 0, true, []string{"h", "ear", "ts", "e", "\xff"}},                   // LeadingStrings, fallback
		{`(?:bcd|abcde)f`, ci, true, []string{"a", "BCD", "e", "f", "bcd"}},                    // LeadingStrings_OrdinalIgnoreCase
		{"(?:\u00e9a|xb)", 0, true, []string{"\u00e9", "a", "x", "b", "\xc3"}},                 // LeadingStrings with a non-ASCII prefix
		{`[ab]x..`, 0, false, []string{"a", "b", "x", "\u00e9", "\xff"}},                       // LeadingSet / FixedDistanceSets
		{`[a-c]\d`, 0, false, []string{"a", "c", "1", "d", "\x80"}},                            // LeadingSet, range
		{`..a`, 0, false, []string{"a", "b", "\u00e9", "\xff", "\U0001F601"}},                  // FixedDistanceChar
		{`(?s)..a`, 0, false, []string{"a", "\n", "\xe2\x82", "\xff", "\u20ac"}},
		{".\uFFFD", sl, false, []string{"a", "\xff", "\xef\xbf\xbd", "\xef\xbf", "\xc3"}}, // U+FFFD at a fixed distance: every invalid byte
		{"..\uFFFD", sl, false, []string{"a", "\xff", "\xef\xbf\xbd", "\u00e9", "\xed\xa0\x80"}},
		{"..\u00e9", sl, false, []string{"a", "\u00e9", "\xc3", "\xa9", "\xff"}}, // multi-byte char at a fixed distance
		{".\U0001F601", sl, false, []string{"a", "\U0001F601", "\xf0\x9f\x98", "\x81", "\xf0"}},
		{`..abab`, 0, false, []string{"a", "b", "ab", "x", "\xff"}}, // FixedDistanceString, self-overlapping
		{`.aa`, 0, false, []string{"a", "b", "\u00e9", "\xff"}},
		{".\u00e9a", sl, false, []string{"a", "\u00e9", "\xc3", "\xa9", "\xff"}},
		{`\w+@x`, 0, false, []string{"a", "@x", "@", " ", "\xff"}},                   // LiteralAfterLoop, string
		{`\w+@X`, ci, false, []string{"a", "@x", "@X", " ", "\xff"}},                 // … ignore-case
		{`[a-c]+x`, 0, false, []string{"a", "x", " ", "\xff", "\u00e9"}},             // … char
		{`\d+[xy]`, 0, false, []string{"1", "x", "y", " ", "\xff"}},                  // … chars
		{"\\d+[x\uFFFD]", 0, false, []string{"1", "x", "\xff", "\xef\xbf\xbd", " "}}, // … chars with U+FFFD
		{"\\d+\uFFFD", 0, false, []string{"1", "x", "\xff", "\xef\xbf\xbd", "\xc3"}}, // … char U+FFFD
		{"\\d+\u00e9", 0, false, []string{"1", "\u00e9", "\xc3", "\xa9", "\xff"}},
		{"a\uFFFDb", 0, false, []string{"a", "\xff", "\xef\xbf\xbd", "b"}}, // U+FFFD in the literal: no filter
		{"..a\uFFFD", sl, false, []string{"a", "\xff", "\xef\xbf\xbd", "b"}},
		{"\\w+@\uFFFD", 0, false, []string{"a", "@", "\xff", "\xef\xbf\xbd"}},
		{`\Gab`, 0, false, []string{"a", "b", "ab"}}, // \G: no filter
		{`(?<=\Ga)bc`, 0, false, []string{"a", "bc", "b"}},
		{`ab`, rtl, false, []string{"a", "b", "ab"}}, // right-to-left: no filter
	}
	var out []engCase
	for _, x := range ds {
		var inputs []string
		var rec func(cur string, depth int)
		rec = func(cur string, depth int) {
			inputs = append(inputs, cur)
			if depth == maxLen {
				return
			}
			for _, t := range x.tokens {
				rec(cur+t, depth+1)
			}
		}
		rec("", 0)
		seen := map[string]bool{}
		for _, in := range inputs {
			if seen[in] {
				continue
			}
			seen[in] = true
			out = append(out, engCase{Pattern: x.pat, Opts: x.opts, CodeGen: x.cg, RawHex: hex.EncodeToString([]byte(in)), Text: []rune(in), Source: "directed"})
		}
	}
	return out
}

// sfCorpus: fixed witnesses (the demonstrations of the three seeded changes in this file, D2, D22).
var sfCorpus = func() []engCase {
	mk := func(pat string, opts int32, cg bool, in string) engCase {
		return engCase{Pattern: pat, Opts: opts, CodeGen: cg, RawHex: hex.EncodeToString([]byte(in)), Text: []rune(in), Source: "corpus"}
	}
	ci := int32(regexp2.IgnoreCase)
	sl := int32(regexp2.Singleline)
	return []engCase{
		mk(`(?:ear|hearts)\b`, 0, true, "two hearts"), mk(`bcd|abcde`, 0, true, "abcdef"), mk(`(?:bcd|abcde)f`, ci, true, "xABCDEF"),
		mk(`..abab`, 0, false, "xababab"), mk(`..abab`, 0, false, "zzzxababab"), mk(`.aa`, 0, false, "aaa"),
		mk(".\uFFFD", 0, false, "\xffa"), mk(".\uFFFD", 0, false, "\xff\xff"), mk("..\uFFFD", 0, false, "xyza\xffb"), mk("(?s)..\\x{FFFD}", sl, false, "\n\xff\xff"),
		mk("a\\x{FFFD}", 0, false, "xa\xffy"), mk(`\G{2}abc`, 0, false, "xxabc"),
		mk(`..a`, 0, false, "\xe2\x82a\u20aca"), mk("..\u00e9", 0, false, "\xc3\xc3\xa9\xa9\u00e9"),
	}
}()

// sfRegister runs leg Sf; div scales it down (C03 runs a smaller copy).
func sfRegister(c *core.Ctx, div int) {
	if div < 1 {
		div = 1
	}
	g := &sfGen{}
	depth := c.N(3, 5)
	if div > 1 {
		depth = c.N(2, 4)
	}
	core.RunLeg(c, core.Leg[engCase]{
		Name: "Sf", Kind: "correspondence(raw-string prefix filter model)+oracle(single-position attempts)",
		Rule: "patterns: the find-mode-biased generator (4/5; literal / alternation-of-literals prefixes incl. nested ones, set at a fixed offset, char at a fixed distance incl. U+FFFD and multi-byte, literal after a leading loop, …) and random full-syntax ASTs (1/5), options random (RightToLeft 1/8 of the option draws), code-gen analysis on 1/2; inputs are RAW BYTE strings: pattern-directed runes (multi-byte and astral) encoded as UTF-8, 3/5 with 1-3 fragments spliced in at random byte offsets (0xff, 0xfe, lone lead bytes, truncated 2/3/4-byte sequences, lone continuation bytes, encoded surrogates, overlong forms, a sequence above U+10FFFF, a five-byte form, a literal U+FFFD and its truncations); plus a corpus (the demonstrations of the seeded changes C02b/C03b/C10b, D2, D22) and a small-scope exhaustive part: 33 patterns chosen to reach every filter constructor and every 'no filter' guard, each on ALL concatenations of up to 3 (thorough 5) tokens from a per-pattern list of byte sequences. Per case the filter is called at EVERY startAt 0..len+1 (on and off rune boundaries, one beyond the end) through VerifStringPrefixFilter; (1) the Lean model of newStringPrefixFilter on the exported record must agree on whether a filter is installed and on (candidate, ok) at every startAt; (2) without any model: at every startAt on a rune boundary, with the single-position attempts of the program on the decoded runes as reference, ok=false only if no position >= startAt succeeds, and a candidate is a rune boundary in [startAt, byte offset of the first succeeding position]. non-trivial = a filter is installed and the input is non-empty; histogram filter=<constructor>:<find mode>, input=ascii|multibyte|invalid-utf8",
		N:    c.N(2500, 120000) / div, Corpus: append(append([]engCase{}, sfCorpus...), sfDirected(depth)...), Gen: g.next, Check: sfCheck, Batch: 500,
	})
}
