package legs

import (
	"fmt"
	"math/rand"
	"sort"
	"strconv"
	"strings"
	"time"
	"unicode/utf8"

	"rvharness/internal/core"

	regexp2 "github.com/dlclark/regexp2/v2"
	"github.com/dlclark/regexp2/v2/syntax"
)

// C09 — Replace and Split are the fold of the match sequence.

type c09Case struct {
	Pattern string `json:"pattern"`
	Opts    int    `json:"opts"`              // regexp2.RegexOptions bits
	Ordered bool   `json:"ordered,omitempty"` // OptionMaintainCaptureOrder
	Input   string `json:"input"`
	Rep     string `json:"rep"`
	StartAt int    `json:"startAt"`
	Count   int    `json:"count"`
}

// ---------------------------------------------------------------------------------------------
// generators

var c09Names = []string{"n", "name", "x", "_1", "ñ"}

func c09Atom(rng *rand.Rand, depth int) string {
	switch k := rng.Intn(40); {
	case k < 12:
		return []string{"a", "b", "c", "a", "b", "é", "日", "ab", "-"}[rng.Intn(9)]
	case k < 17:
		return []string{"[ab]", "[^a]", `\w`, `\d`, `\s`, ".", `[a-c]`, `\W`}[rng.Intn(8)]
	case k < 20:
		return []string{`\b`, "^", "$", `\B`, `(?<=a)`, `(?=b)`, `(?!c)`, `(?<!b)`, `\G`}[rng.Intn(9)]
	case k < 21:
		return []string{`\1`, `\1`, `\2`, `\k<n>`}[rng.Intn(4)]
	default:
		if depth <= 0 {
			return []string{"a", "b", "c"}[rng.Intn(3)]
		}
		body := c09Alt(rng, depth-1)
		switch g := rng.Intn(12); {
		case g < 5:
			return "(" + body + ")"
		case g < 8:
			return "(?<" + c09Names[rng.Intn(len(c09Names))] + ">" + body + ")"
		case g < 9:
			return "(?'" + c09Names[rng.Intn(len(c09Names))] + "'" + body + ")"
		case g < 10:
			return "(?<" + strconv.Itoa([]int{1, 2, 3, 5, 10, 12}[rng.Intn(6)]) + ">" + body + ")"
		case g < 11 && rng.Intn(3) == 0:
			// balancing groups on the pool's names (a compile error when the name is not a group of the pattern)
			nm := c09Names[rng.Intn(len(c09Names))]
			if rng.Intn(2) == 0 {
				return "(?<-" + nm + ">" + body + ")"
			}
			return "(?<" + c09Names[rng.Intn(len(c09Names))] + "-" + nm + ">" + body + ")"
		default:
			return "(?:" + body + ")"
		}
	}
}

func c09Seq(rng *rand.Rand, depth int) string {
	n := 1
	if rng.Intn(3) == 0 {
		n += 1 + rng.Intn(2)
	}
	var sb strings.Builder
	for i := 0; i < n; i++ {
		sb.WriteString(c09Atom(rng, depth))
		if rng.Intn(5) < 2 {
			sb.WriteString([]string{"*", "+", "?", "*?", "+?", "??", "{0,2}", "{2}", "?", "*"}[rng.Intn(10)])
		}
	}
	return sb.String()
}

func c09Alt(rng *rand.Rand, depth int) string {
	s := c09Seq(rng, depth)
	for rng.Intn(4) == 0 {
		s += "|" + c09Seq(rng, depth)
	}
	return s
}

var c09InputAlphabet = []string{"a", "b", "c", "a", "b", " ", "-", "1", "é", "日", "😀", "ab"}

func c09Input(rng *rand.Rand) string {
	n := rng.Intn(11)
	if rng.Intn(10) == 0 {
		n = rng.Intn(20)
	}
	var sb strings.Builder
	for i := 0; i < n; i++ {
		sb.WriteString(c09InputAlphabet[rng.Intn(len(c09InputAlphabet))])
	}
	return sb.String()
}

var c09RepForms = []string{
	"x", "-", "é", "{", "}", "0", "1", "[", "]", " ",
	"$0", "$1", "$2", "$3", "$9", "$10", "$12", "$01", "$11", "$20", "$5",
	"${0}", "${1}", "${2}", "${1}0", "${10}", "${12}", "${5}", "${01}",
	"${n}", "${name}", "${x}", "${_1}", "${ñ}", "${nosuch}", "$n", "$name",
	"${", "${}", "${1", "${n", "${1a}", "${n-}", "${ n}", "${n }", "$}", "$é", "${٣}", "${1٣}",
	"$", "$$", "$&", "$`", "$'", "$+", "$_", "$&$'$+$_", "$$1", "$$$1", "$`$'",
}

func c09Rep(rng *rand.Rand) string {
	if rng.Intn(60) == 0 {
		return []string{"$99999999999", "${99999999999}", "$2147483647", "$2147483648", "a$21474836480"}[rng.Intn(5)]
	}
	n := rng.Intn(5)
	var sb strings.Builder
	for i := 0; i < n; i++ {
		sb.WriteString(c09RepForms[rng.Intn(len(c09RepForms))])
	}
	return sb.String()
}

// c09Balanced: some matches pop captures of a group (so the match has to be compacted before its groups are
// read) and others do not, in either order, and the replacement refers to the popped group.
func c09Balanced(rng *rand.Rand) c09Case {
	nm := c09Names[rng.Intn(3)]
	push := "(?<" + nm + ">a)"
	if rng.Intn(2) == 0 {
		push += "(?<" + nm + ">b)"
	}
	pop := "(?<-" + nm + ">c)"
	if rng.Intn(3) == 0 {
		pop = "(?<x-" + nm + ">c)"
	}
	bal := push + pop
	if rng.Intn(3) == 0 {
		bal = push + "-?" + pop + "?"
	}
	plain := []string{"x", "(?<" + nm + ">-)", "[x-]", `\d`}[rng.Intn(4)]
	pat := plain + "|" + bal
	if rng.Intn(2) == 0 {
		pat = bal + "|" + plain
	}
	words := []string{"x", "-", "abc", "ac", "ab", "abc", "1", " ", "a-c", "abbc"}
	var sb strings.Builder
	for k := 2 + rng.Intn(5); k > 0; k-- {
		sb.WriteString(words[rng.Intn(len(words))])
		if rng.Intn(3) == 0 {
			sb.WriteByte(' ')
		}
	}
	reps := []string{"[${" + nm + "}]", "<$1>", "$+", "${" + nm + "}$2", "[$1|$2]", "$&:${" + nm + "}"}
	return c09Case{Pattern: pat, Input: sb.String(), Rep: reps[rng.Intn(len(reps))]}
}

func c09Gen(rng *rand.Rand, i int) c09Case {
	cs := c09Case{Pattern: c09Alt(rng, 2), Input: c09Input(rng), Rep: c09Rep(rng)}
	if rng.Intn(12) == 0 {
		cs = c09Balanced(rng)
	}
	switch rng.Intn(12) {
	case 0, 1, 2, 3:
		cs.Opts = int(regexp2.RightToLeft)
	case 4:
		cs.Opts = int(regexp2.ECMAScript)
	case 5:
		cs.Opts = int(regexp2.IgnoreCase)
	case 6:
		cs.Opts = int(regexp2.ExplicitCapture)
	case 7:
		cs.Opts = int(regexp2.RightToLeft | regexp2.Multiline)
	}
	if rng.Intn(10) == 0 {
		cs.Ordered = true
	}
	cs.StartAt = -1
	if rng.Intn(2) == 0 {
		cs.StartAt = rng.Intn(len(cs.Input)+2) - 1
	}
	cs.Count = []int{-1, -1, -1, 0, 1, 2, 3, 2, 1, 5, -2}[rng.Intn(11)]
	return cs
}

// ---------------------------------------------------------------------------------------------
// what the harness reads off a match through the public API

type c09Group struct {
	Set        bool
	Index, Len int
}

type c09Match struct {
	Index, Len int
	Groups     []c09Group // slots 1.. in slot order
	src        *regexp2.Match
}

func c09ReadMatch(m *regexp2.Match) c09Match {
	out := c09Match{Index: m.RuneIndex, Len: m.RuneLength, src: m}
	gs := m.Groups()
	for i := 1; i < len(gs); i++ {
		g := gs[i]
		if len(g.Captures) == 0 {
			out.Groups = append(out.Groups, c09Group{})
		} else {
			out.Groups = append(out.Groups, c09Group{Set: true, Index: g.RuneIndex, Len: g.RuneLength})
		}
	}
	return out
}

const c09MaxMatches = 64

// c09Enumerate lists the matches delivered from startAt (FindStringMatchStartingAt / FindNextMatch).
func c09Enumerate(re *regexp2.Regexp, input string, startAt int) ([]c09Match, error) {
	var m *regexp2.Match
	var err error
	if startAt == -1 {
		m, err = re.FindStringMatch(input)
	} else {
		m, err = re.FindStringMatchStartingAt(input, startAt)
	}
	var out []c09Match
	for err == nil && m != nil && len(out) < c09MaxMatches {
		out = append(out, c09ReadMatch(m))
		m, err = re.FindNextMatch(m)
	}
	return out, err
}

// ---------------------------------------------------------------------------------------------
// independent implementation of the documented substitution grammar, working on the strings and the
// public group API only.
//
//	$n  ${n}  ${name}  $$  $&  $`  $'  $+  $_ ; anything else after a `$` leaves the `$` literal.
//	Without ECMAScript `$n` takes all the digits; with it, the longest prefix that is a group number.

type c09Groups struct {
	numbers []int            // group number of each slot (GetGroupNumbers)
	byName  func(string) int // GroupNumberFromName
	ecma    bool
}

func (g *c09Groups) slotOfNumber(n int) int {
	for i, k := range g.numbers {
		if k == n {
			return i
		}
	}
	return -1
}

var errC09Overflow = fmt.Errorf("capture group number out of range")

// c09Expand returns the expansion of rep for match m of text (runes).
func c09Expand(rep string, g *c09Groups, text []rune, m c09Match) (string, error) {
	groupText := func(slot int) string {
		if slot == 0 {
			return string(text[m.Index : m.Index+m.Len])
		}
		gr := m.Groups[slot-1]
		if !gr.Set {
			return ""
		}
		return string(text[gr.Index : gr.Index+gr.Len])
	}
	rs := []rune(rep)
	var out strings.Builder
	readInt := func(i int) (val int, end int, err error) {
		v := 0
		for i < len(rs) && rs[i] >= '0' && rs[i] <= '9' {
			v = v*10 + int(rs[i]-'0')
			if v > 1<<31-1 {
				return 0, i, errC09Overflow
			}
			i++
		}
		return v, i, nil
	}
	for i := 0; i < len(rs); {
		if rs[i] != '$' {
			out.WriteRune(rs[i])
			i++
			continue
		}
		// rs[i] == '$'
		if i+1 >= len(rs) {
			out.WriteByte('$')
			i++
			continue
		}
		c := rs[i+1]
		switch {
		case c >= '0' && c <= '9':
			if !g.ecma {
				v, end, err := readInt(i + 1)
				if err != nil {
					return "", err
				}
				if slot := g.slotOfNumber(v); slot >= 0 {
					out.WriteString(groupText(slot))
					i = end
					continue
				}
			} else {
				bestSlot, bestEnd := -1, 0
				v := 0
				for j := i + 1; j < len(rs) && rs[j] >= '0' && rs[j] <= '9'; j++ {
					v = v*10 + int(rs[j]-'0')
					if v > 1<<31-1 {
						return "", errC09Overflow
					}
					if slot := g.slotOfNumber(v); slot >= 0 {
						bestSlot, bestEnd = slot, j+1
					}
				}
				if bestSlot >= 0 {
					out.WriteString(groupText(bestSlot))
					i = bestEnd
					continue
				}
			}
		case c == '{' && i+2 < len(rs):
			d := rs[i+2]
			if d >= '0' && d <= '9' {
				v, end, err := readInt(i + 2)
				if err != nil {
					return "", err
				}
				if end < len(rs) && rs[end] == '}' {
					if slot := g.slotOfNumber(v); slot >= 0 {
						out.WriteString(groupText(slot))
						i = end + 1
						continue
					}
				}
			} else if isWordCharStd(d) {
				end := i + 2
				for end < len(rs) && isWordCharStd(rs[end]) {
					end++
				}
				if end < len(rs) && rs[end] == '}' {
					name := string(rs[i+2 : end])
					if n := g.byName(name); n >= 0 && !(name[0] >= '0' && name[0] <= '9') {
						if slot := g.slotOfNumber(n); slot >= 0 {
							out.WriteString(groupText(slot))
							i = end + 1
							continue
						}
					}
				}
			}
		case c == '$':
			out.WriteByte('$')
			i += 2
			continue
		case c == '&':
			out.WriteString(groupText(0))
			i += 2
			continue
		case c == '`':
			out.WriteString(string(text[:m.Index]))
			i += 2
			continue
		case c == '\'':
			out.WriteString(string(text[m.Index+m.Len:]))
			i += 2
			continue
		case c == '+':
			out.WriteString(groupText(len(m.Groups)))
			i += 2
			continue
		case c == '_':
			out.WriteString(string(text))
			i += 2
			continue
		}
		out.WriteByte('$')
		i++
	}
	return out.String(), nil
}

// c09Ordered: the first k matches, in text order, must be disjoint and inside the text.
func c09InTextOrder(ms []c09Match, rtl bool, n int) ([]c09Match, bool) {
	out := append([]c09Match{}, ms...)
	if rtl {
		for i, j := 0, len(out)-1; i < j; i, j = i+1, j-1 {
			out[i], out[j] = out[j], out[i]
		}
	}
	pos := 0
	for _, m := range out {
		if m.Index < pos || m.Len < 0 {
			return out, false
		}
		pos = m.Index + m.Len
	}
	return out, pos <= n
}

func c09Take(ms []c09Match, count int) []c09Match {
	if count >= 0 && count < len(ms) {
		return ms[:count]
	}
	return ms
}

// ---------------------------------------------------------------------------------------------
// S-expressions for the Lean driver

func c09MatchSexp(ms []c09Match) string {
	var sb strings.Builder
	for i, m := range ms {
		if i > 0 {
			sb.WriteByte(' ')
		}
		fmt.Fprintf(&sb, "(%d %d", m.Index, m.Len)
		for _, g := range m.Groups {
			if g.Set {
				fmt.Fprintf(&sb, " (%d %d)", g.Index, g.Len)
			} else {
				sb.WriteString(" u")
			}
		}
		sb.WriteByte(')')
	}
	return sb.String()
}

func c09StringsSexp(tag string, ss []string) string {
	parts := make([]string, len(ss))
	for i, s := range ss {
		parts[i] = core.SRunes(s)
	}
	return core.S(tag, parts...)
}

// top-level fields of "(ans f1 f2 …)"
func c09Fields(ans string) map[string]string {
	out := map[string]string{}
	if !strings.HasPrefix(ans, "(ans ") || !strings.HasSuffix(ans, ")") {
		return out
	}
	body := ans[5 : len(ans)-1]
	depth, start := 0, -1
	for i := 0; i < len(body); i++ {
		switch body[i] {
		case '(':
			if depth == 0 {
				start = i
			}
			depth++
		case ')':
			depth--
			if depth == 0 && start >= 0 {
				f := body[start : i+1]
				name := f[1:]
				if j := strings.IndexAny(name, " )"); j >= 0 {
					name = name[:j]
				}
				out[name] = f
				start = -1
			}
		}
	}
	return out
}

// ---------------------------------------------------------------------------------------------

type c09Go struct {
	skip                bool
	line                string
	parse, repl, fn, sp string // expected driver fields ("" = not compared)
	wantValid           string
}

func c09Safe(f func() (string, error)) (s string, err error, panicked any) {
	defer func() {
		if r := recover(); r != nil {
			panicked = r
		}
	}()
	s, err = f()
	return
}

func c09SafeSplit(f func() ([]string, error)) (s []string, err error, panicked any) {
	defer func() {
		if r := recover(); r != nil {
			panicked = r
		}
	}()
	s, err = f()
	return
}

func c09Check(c *core.Ctx, cases []c09Case) []core.Outcome {
	outs := make([]core.Outcome, len(cases))
	gos := make([]c09Go, len(cases))
	var lines []string
	var lineIdx []int
	for i, cs := range cases {
		o := &outs[i]
		o.Key = fmt.Sprintf("%s|%d|%v|%s|%s|%d|%d", cs.Pattern, cs.Opts, cs.Ordered, cs.Input, cs.Rep, cs.StartAt, cs.Count)
		c09One(cs, o, &gos[i])
		if !gos[i].skip && o.Fail == nil {
			lines = append(lines, gos[i].line)
			lineIdx = append(lineIdx, i)
		}
	}
	res, err := c.RunDriver(lines)
	if err != nil {
		for _, i := range lineIdx {
			if outs[i].Fail == nil {
				outs[i].Fail = core.DriverFailure(err)
				break
			}
		}
		return outs
	}
	for k, i := range lineIdx {
		g := &gos[i]
		f := c09Fields(res[k])
		if len(f) == 0 {
			outs[i].Fail = &core.Failure{Kind: "correspondence-break", Key: "driver-answer", Summary: "the Lean driver did not answer the case", Expected: "(ans …)", Got: res[k]}
			continue
		}
		if strings.Contains(f["parse"], "unmodelled") {
			outs[i].Buckets = append(outs[i].Buckets, "parse-unmodelled")
			g.parse, g.repl, g.fn = "", "", ""
		}
		for _, cmp := range []struct{ name, want, what string }{
			{"valid", g.wantValid, "a theorem hypothesis fails on what Go delivered: the match sequences must be ordered, disjoint, in bounds (valid) and the group maps well-formed (envOk)"},
			{"parse", g.parse, "Lean scanner (scanReplacement/scanDollar/NewReplacerData model) disagrees with syntax.NewReplacerData"},
			{"replace", g.repl, "Lean replace model disagrees with Regexp.Replace"},
			{"func", g.fn, "Lean replaceFunc model disagrees with Regexp.ReplaceFunc"},
			{"split", g.sp, "Lean split model disagrees with Regexp.Split"},
		} {
			if cmp.want == "" {
				continue
			}
			if f[cmp.name] != cmp.want {
				outs[i].Fail = &core.Failure{Kind: "correspondence-break", Key: "model:" + cmp.name, Summary: cmp.what, Expected: f[cmp.name], Got: cmp.want}
				break
			}
		}
	}
	return outs
}

func c09ResField(name, s string, err error) string {
	if err != nil {
		return core.S(name, "err")
	}
	return core.S(name, "ok", core.SRunes(s))
}

// c09One runs the real code on one case, applies the model-free oracle and prepares the driver line.
func c09One(cs c09Case, o *core.Outcome, g *c09Go) {
	opts := regexp2.RegexOptions(cs.Opts)
	copts := []regexp2.CompileOption{opts}
	if cs.Ordered {
		copts = append(copts, regexp2.OptionMaintainCaptureOrder())
	}
	re, err := regexp2.Compile(cs.Pattern, copts...)
	if err != nil {
		o.Buckets = append(o.Buckets, "compile-error")
		g.skip = true
		return
	}
	re.MatchTimeout = 5 * time.Second
	rtl := re.RightToLeft()
	ecma := opts&regexp2.ECMAScript != 0
	text := []rune(cs.Input)
	fail := func(key, summary, want, got string) {
		if o.Fail == nil {
			o.Fail = &core.Failure{Kind: "impl-violation", Key: key, Summary: summary, Expected: want, Got: got}
		}
	}
	dir := "ltr"
	if rtl {
		dir = "rtl"
	}
	o.Buckets = append(o.Buckets, dir, fmt.Sprintf("count=%d", cs.Count))
	if ecma {
		o.Buckets = append(o.Buckets, "ecma")
	}

	nums := re.GetGroupNumbers()
	names := re.GetGroupNames()
	groups := &c09Groups{numbers: nums, byName: re.GroupNumberFromName, ecma: ecma}

	// the two match sequences -----------------------------------------------------------------
	t0 := time.Now()
	rms, rerr := c09Enumerate(re, cs.Input, cs.StartAt)
	sms, serr := c09Enumerate(re, cs.Input, -1)
	if time.Since(t0) > 1500*time.Millisecond {
		// a pattern that needs seconds on this input (exponential backtracking): Replace, ReplaceFunc and Split each
		// repeat the search under the 5 s MatchTimeout and, on a loaded machine, one of them times out while the other
		// does not — a difference that says nothing about replacement. Counted, not compared.
		o.Buckets = append(o.Buckets, "slow-pattern")
		g.skip = true
		return
	}
	if serr != nil || (rerr != nil && !c09StartAtInvalid(cs)) {
		e := serr
		if e == nil {
			e = rerr
		}
		msg := e.Error()
		if len(msg) > 40 {
			msg = msg[:40]
		}
		o.Buckets = append(o.Buckets, "match-error", "match-error: "+msg)
		g.skip = true
		return
	}
	if len(rms) >= c09MaxMatches || len(sms) >= c09MaxMatches {
		g.skip = true
		o.Buckets = append(o.Buckets, "too-many-matches")
		return
	}
	startBad := rerr != nil
	if startBad {
		o.Buckets = append(o.Buckets, "startAt-invalid")
		rms = nil
	} else if cs.StartAt >= 0 {
		o.Buckets = append(o.Buckets, "startAt-given")
	}
	if len(rms) == 0 {
		o.Buckets = append(o.Buckets, "replace-matches=0")
	} else if len(rms) == 1 {
		o.Buckets = append(o.Buckets, "replace-matches=1")
	} else {
		o.Buckets = append(o.Buckets, "replace-matches>=2")
	}
	unset, empty := false, false
	for _, m := range rms {
		if m.Len == 0 {
			empty = true
		}
		for _, gr := range m.Groups {
			if !gr.Set {
				unset = true
			}
		}
	}
	if unset {
		o.Buckets = append(o.Buckets, "unset-group")
	}
	if empty {
		o.Buckets = append(o.Buckets, "empty-match")
	}
	if len(nums) > 1 {
		o.Buckets = append(o.Buckets, "has-groups")
	}
	if utf8.RuneCountInString(cs.Input) != len(cs.Input) {
		o.Buckets = append(o.Buckets, "multibyte-input")
	}
	o.Nontrivial = len(rms) > 0 || len(sms) > 0

	// Replace ------------------------------------------------------------------------------------
	got, gerr, pan := c09Safe(func() (string, error) { return re.Replace(cs.Input, cs.Rep, cs.StartAt, cs.Count) })
	if pan != nil {
		fail("replace:panic:"+dir, "Regexp.Replace panics", "a string", fmt.Sprint(pan))
		return
	}
	// expansion by the independent implementation, for every delivered match
	expErr := error(nil)
	if _, e := c09Expand(cs.Rep, groups, text, c09Match{Groups: make([]c09Group, len(nums)-1)}); e != nil {
		expErr = e
	}
	used := c09Take(rms, cs.Count)
	inOrder, okOrder := c09InTextOrder(used, rtl, len(text))
	if !okOrder {
		fail("sequence:not-ordered:"+dir, "the matches delivered by FindStringMatchStartingAt/FindNextMatch are not ordered, disjoint and in bounds", "ordered", c09MatchSexp(rms))
		return
	}
	fold := func(ev func(m c09Match) string, ms []c09Match) string {
		var sb strings.Builder
		pos := 0
		for _, m := range ms {
			sb.WriteString(string(text[pos:m.Index]))
			sb.WriteString(ev(m))
			pos = m.Index + m.Len
		}
		sb.WriteString(string(text[pos:]))
		return sb.String()
	}
	ev := func(m c09Match) string { s, _ := c09Expand(cs.Rep, groups, text, m); return s }
	var want string
	wantErr := false
	switch {
	case expErr != nil: // the replacement does not parse
		wantErr = true
	case cs.Count < -1:
		wantErr = true
	case cs.Count == 0:
		want = cs.Input
	case startBad:
		wantErr = true
	default:
		want = fold(ev, inOrder)
	}
	if wantErr != (gerr != nil) || (!wantErr && got != want) {
		w := want
		if wantErr {
			w = "an error"
		}
		gs := got
		if gerr != nil {
			gs = "error: " + gerr.Error()
		}
		key := "replace:fold:" + dir
		if cs.Count == 0 {
			key = "replace:count0:" + dir
		}
		fail(key, "Regexp.Replace differs from the fold of the match sequence with the documented $-expansion", w, gs)
		return
	}
	if len(used) > 0 && !wantErr && cs.Count != 0 {
		if strings.Contains(cs.Rep, "$") {
			o.Buckets = append(o.Buckets, "replace-with-$")
		}
	}

	// ReplaceFunc with an evaluator computing the same expansion ------------------------------------
	var gotF string
	var gerrF error
	if expErr == nil {
		gotF, gerrF, pan = c09Safe(func() (string, error) {
			return re.ReplaceFunc(cs.Input, func(m regexp2.Match) string { return ev(c09ReadMatch(&m)) }, cs.StartAt, cs.Count)
		})
		if pan != nil {
			fail("replacefunc:panic:"+dir, "Regexp.ReplaceFunc panics", "a string", fmt.Sprint(pan))
			return
		}
		if (gerrF != nil) != (gerr != nil) || gotF != got {
			fail("replacefunc:differs:"+dir, "ReplaceFunc with an evaluator computing the expansion differs from Replace", got, gotF)
			return
		}
	}

	// Replace with $& is the identity ----------------------------------------------------------------
	if !startBad && cs.Count >= -1 {
		id, ierr, pan := c09Safe(func() (string, error) { return re.Replace(cs.Input, "$&", cs.StartAt, cs.Count) })
		if pan != nil || ierr != nil || id != cs.Input {
			fail("replace:self:"+dir, "Replace(s, \"$&\") is not the identity", cs.Input, fmt.Sprint(id, ierr, pan))
			return
		}
	}

	// Split ----------------------------------------------------------------------------------------
	sp, sperr, pan := c09SafeSplit(func() ([]string, error) { return re.Split(cs.Input, cs.Count) })
	if pan != nil {
		fail("split:panic:"+dir, "Regexp.Split panics", "pieces", fmt.Sprint(pan))
		return
	}
	var wantSp []string
	wantSpErr := false
	var usedS []c09Match
	switch {
	case cs.Count < -1:
		wantSpErr = true
	case cs.Count == 0:
		wantSp = nil
	case cs.Count == 1 || len(sms) == 0:
		wantSp = []string{cs.Input}
	default:
		usedS = c09Take(sms, cs.Count)
		ordS, okS := c09InTextOrder(usedS, rtl, len(text))
		if !okS {
			fail("sequence:not-ordered:"+dir, "the matches delivered by FindStringMatch/FindNextMatch are not ordered, disjoint and in bounds", "ordered", c09MatchSexp(sms))
			return
		}
		usedS = ordS
		pos := 0
		for _, m := range ordS {
			wantSp = append(wantSp, string(text[pos:m.Index]))
			// captured groups of the match, slot order (right-to-left: reverse slot order, the whole
			// list is built backwards and reversed, as in .NET)
			var gts []string
			for _, gr := range m.Groups {
				if gr.Set {
					gts = append(gts, string(text[gr.Index:gr.Index+gr.Len]))
				} else {
					gts = append(gts, "")
				}
			}
			if rtl {
				for a, b := 0, len(gts)-1; a < b; a, b = a+1, b-1 {
					gts[a], gts[b] = gts[b], gts[a]
				}
			}
			wantSp = append(wantSp, gts...)
			pos = m.Index + m.Len
		}
		wantSp = append(wantSp, string(text[pos:]))
	}
	if wantSpErr != (sperr != nil) || (!wantSpErr && !c09EqStrings(sp, wantSp)) {
		fail("split:fold:"+dir, "Regexp.Split differs from the kept texts interleaved with the captured groups", fmt.Sprintf("%q", wantSp), fmt.Sprintf("%q err=%v", sp, sperr))
		return
	}
	if len(usedS) > 0 {
		o.Buckets = append(o.Buckets, "split-matched")
		if len(nums) == 1 {
			// no captures: the pieces re-joined with the matched texts rebuild the input
			var sb strings.Builder
			for k, p := range sp {
				sb.WriteString(p)
				if k < len(usedS) {
					sb.WriteString(string(text[usedS[k].Index : usedS[k].Index+usedS[k].Len]))
				}
			}
			if sb.String() != cs.Input || len(sp) != len(usedS)+1 {
				fail("split:join:"+dir, "Split pieces re-joined with the matched texts do not rebuild the input", cs.Input, sb.String())
				return
			}
			o.Buckets = append(o.Buckets, "split-join-checked")
		}
	}

	// the Lean driver line -----------------------------------------------------------------------------
	code := regexp2.VerifCode(re)
	capsS := "nil"
	if code.Caps != nil {
		keys := make([]int, 0, len(code.Caps))
		for k := range code.Caps {
			keys = append(keys, k)
		}
		sort.Ints(keys)
		parts := make([]string, len(keys))
		for i, k := range keys {
			parts[i] = fmt.Sprintf("(%d %d)", k, code.Caps[k])
		}
		capsS = strings.Join(parts, " ")
		o.Buckets = append(o.Buckets, "sparse-caps")
	}
	// group maps through the public API: slot i has number nums[i] and name names[i]
	var nameParts []string
	if !ecma {
		for _, nm := range names {
			nameParts = append(nameParts, "("+core.SRunes(nm)+" "+strconv.Itoa(re.GroupNumberFromName(nm))+")")
		}
	}
	var word []rune
	seen := map[rune]bool{}
	for _, r := range cs.Rep {
		if !seen[r] && isWordCharStd(r) {
			word = append(word, r)
		}
		seen[r] = true
	}
	g.line = core.S("c09",
		core.S("text", core.SInts(text)),
		core.S("rms", c09MatchSexp(rms)), core.S("sms", c09MatchSexp(sms)),
		core.S("rep", core.SRunes(cs.Rep)),
		core.S("caps", capsS), core.S("capsize", strconv.Itoa(code.Capsize)),
		core.S("names", strings.Join(nameParts, " ")),
		core.S("word", core.SInts(word)),
		core.S("ecma", core.SBool(ecma)),
		core.S("count", strconv.Itoa(cs.Count)), core.S("rtl", core.SBool(rtl)))
	g.line = strings.ReplaceAll(g.line, "( ", "(")
	g.line = strings.ReplaceAll(g.line, " )", ")")

	g.wantValid = "(valid 1 1 1)"
	// parsed replacement: syntax.NewReplacerData with the regex's own maps
	tree, perr := syntax.Parse(cs.Pattern, syntax.ParseOptions{RegexOptions: syntax.RegexOptions(opts), MaintainCaptureOrder: cs.Ordered})
	if perr == nil {
		data, derr := syntax.NewReplacerData(cs.Rep, code.Caps, code.Capsize, tree.Capnames, syntax.RegexOptions(opts))
		if derr != nil {
			g.parse = "(parse overflow)"
			o.Buckets = append(o.Buckets, "parse-overflow")
		} else {
			g.parse = core.S("parse", "ok", core.S("rules", strings.Trim(core.SInts(data.Rules), "()")), c09StringsSexp("strings", data.Strings))
			g.parse = strings.ReplaceAll(g.parse, "(rules )", "(rules)")
			o.Buckets = append(o.Buckets, fmt.Sprintf("rules=%d", min(len(data.Rules), 4)))
		}
		if (derr != nil) != (expErr != nil) {
			fail("parse:error-mismatch", "the replacement string is rejected/accepted against the documented grammar", fmt.Sprint(expErr), fmt.Sprint(derr))
			return
		}
	}
	if expErr == nil {
		if !startBad {
			g.repl = c09ResField("replace", got, gerr)
			g.fn = c09ResField("func", gotF, gerrF)
		}
	}
	switch {
	case sperr != nil:
		g.sp = "(split err)"
	default:
		parts := make([]string, len(sp))
		for i, s := range sp {
			parts[i] = core.SRunes(s)
		}
		g.sp = "(split ok (" + strings.Join(parts, " ") + "))"
	}
}

func c09StartAtInvalid(cs c09Case) bool {
	if cs.StartAt > len(cs.Input) {
		return true
	}
	return cs.StartAt > 0 && cs.StartAt < len(cs.Input) && !utf8.RuneStart(cs.Input[cs.StartAt])
}

func c09EqStrings(a, b []string) bool {
	if len(a) != len(b) {
		return false
	}
	for i := range a {
		if a[i] != b[i] {
			return false
		}
	}
	return true
}

// ---------------------------------------------------------------------------------------------
// leg K: the per-Regexp cache of parsed replacements is transparent

type c09CacheCase struct {
	Pattern string   `json:"pattern"`
	Opts    int      `json:"opts"`
	Input   string   `json:"input"`
	Reps    []string `json:"reps"`
	Cache   int      `json:"cache"` // OptionMaxCachedReplacerDataEntries
}

func c09CacheGen(rng *rand.Rand, i int) c09CacheCase {
	cs := c09CacheCase{Pattern: c09Alt(rng, 2), Input: c09Input(rng), Cache: []int{1, 2, 3, 16}[rng.Intn(4)]}
	if rng.Intn(3) == 0 {
		cs.Opts = int(regexp2.RightToLeft)
	}
	distinct := make([]string, 2+rng.Intn(5))
	for j := range distinct {
		distinct[j] = c09Rep(rng)
	}
	n := 4 + rng.Intn(12)
	for j := 0; j < n; j++ {
		cs.Reps = append(cs.Reps, distinct[rng.Intn(len(distinct))])
	}
	return cs
}

func c09CacheCheck(c *core.Ctx, cases []c09CacheCase) []core.Outcome {
	outs := make([]core.Outcome, len(cases))
	for i, cs := range cases {
		o := &outs[i]
		o.Key = fmt.Sprintf("%s|%d|%s|%q|%d", cs.Pattern, cs.Opts, cs.Input, cs.Reps, cs.Cache)
		cached, err1 := regexp2.Compile(cs.Pattern, regexp2.RegexOptions(cs.Opts), regexp2.OptionMaxCachedReplacerDataEntries(cs.Cache))
		plain, err2 := regexp2.Compile(cs.Pattern, regexp2.RegexOptions(cs.Opts), regexp2.OptionMaxCachedReplacerDataEntries(0))
		if err1 != nil || err2 != nil {
			o.Buckets = append(o.Buckets, "compile-error")
			continue
		}
		cached.MatchTimeout, plain.MatchTimeout = 5*time.Second, 5*time.Second
		seen := map[string]bool{}
		for k, rep := range cs.Reps {
			a, ea, pa := c09Safe(func() (string, error) { return cached.Replace(cs.Input, rep, -1, -1) })
			b, eb, pb := c09Safe(func() (string, error) { return plain.Replace(cs.Input, rep, -1, -1) })
			if pa != nil || pb != nil || (ea != nil) != (eb != nil) || a != b {
				o.Fail = &core.Failure{Kind: "impl-violation", Key: "cache:differs", Summary: fmt.Sprintf("Replace through the replacement cache (size %d) differs from an uncached Regexp at call %d (%q)", cs.Cache, k, rep),
					Expected: fmt.Sprint(b, eb, pb), Got: fmt.Sprint(a, ea, pa)}
				break
			}
			if a != cs.Input {
				o.Nontrivial = true
			}
			if seen[rep] {
				o.Buckets = append(o.Buckets, "repeat-call")
			}
			seen[rep] = true
		}
		if len(seen) > cs.Cache {
			o.Buckets = append(o.Buckets, "more-strings-than-cache")
		}
	}
	return outs
}

func init() {
	core.Register("C09", func(c *core.Ctx) {
		corpus := []c09Case{
			{Pattern: `(a)(b)?`, Input: "abcab a", Rep: "[$2|$1|$&]", StartAt: -1, Count: -1},
			{Pattern: `(a)(b)?`, Opts: int(regexp2.RightToLeft), Input: "abcab a", Rep: "[$2|$1|$&]", StartAt: -1, Count: -1},
			{Pattern: `(a)(b)?`, Opts: int(regexp2.RightToLeft), Input: "abcab a", Rep: "<$`|$'|$+|$_>", StartAt: -1, Count: 2},
			{Pattern: `b`, Input: "abc", Rep: "x", StartAt: -1, Count: 0},
			{Pattern: `(-)`, Opts: int(regexp2.RightToLeft), Input: "a-b-c", Rep: "", StartAt: -1, Count: -1},
			{Pattern: `a*`, Input: "baaac", Rep: "<$&>", StartAt: -1, Count: -1},
			{Pattern: `a*`, Opts: int(regexp2.RightToLeft), Input: "baaac", Rep: "<$&>", StartAt: 3, Count: -1},
			{Pattern: `\b`, Input: "ab cd", Rep: "|", StartAt: 1, Count: 3},
			{Pattern: `(?<n>a)|(?<5>b)|(c)`, Input: "abcé日", Rep: "${n}$5$1$2${5}0$12", StartAt: -1, Count: -1},
			{Pattern: `(a)(b)(c)(d)(e)(f)(g)(h)(i)(j)(k)(l)`, Opts: int(regexp2.ECMAScript), Input: "abcdefghijkl", Rep: "$12|$13|$1", StartAt: -1, Count: -1},
			{Pattern: `(?<open>\()+[^()]*(?<close-open>\))+`, Input: "x((a))y(b)", Rep: "[${open}|${close}|$+]", StartAt: -1, Count: -1},
			{Pattern: `(?<open>\()+[^()]*(?<close-open>\))+`, Opts: int(regexp2.RightToLeft), Input: "x((a))y(b)", Rep: "[${open}|${close}|$+]", StartAt: -1, Count: -1},
			{Pattern: `é|(日)`, Input: "aé日😀é", Rep: "$1$1", StartAt: 3, Count: 2},
			{Pattern: `a`, Input: "aaa", Rep: "$99999999999", StartAt: -1, Count: 0},
			{Pattern: `a*`, Input: "", Rep: "x", StartAt: 0, Count: -1},
		}
		// the cases of /repo's replace_test.go and split_test.go, in both directions and with a bounded count
		for _, b := range []c09Case{
			{Pattern: `[^ ]+\s(?<time>)`, Input: "08/10/99 16:00", Rep: "${time}"},
			{Pattern: `D\.(.+)`, Input: "D.Bau", Rep: "David $1"},
			{Pattern: `(123)hello(789)`, Input: "123hello789", Rep: "$1456$2"},
			{Pattern: `(\p{Sc}\s?)?(\d+\.?((?<=\.)\d+)?)(?(1)|\s?\p{Sc})?`, Input: "$17.43  €2 16.33  £0.98  0.43   £43   12€  17", Rep: "$2"},
			{Pattern: `a(.)c(.)e`, Opts: int(regexp2.IgnoreCase), Input: "123abcde456aBCDe789abcde", Rep: "<$2$1>"},
			{Pattern: `(?<=\G..)(?=..)`, Input: "aabbccdd", Rep: "-"},
			{Pattern: `test(?<sub>ing)?`, Input: "this is a testing stuff test", Rep: "[${sub}|$+|$`]"},
			{Pattern: `a`, Input: "aaaaa", Rep: "b", StartAt: 3},
		} {
			for _, rtl := range []int{0, int(regexp2.RightToLeft)} {
				for _, count := range []int{-1, 2} {
					cs := b
					cs.Opts |= rtl
					cs.Count = count
					if cs.StartAt == 0 {
						cs.StartAt = -1
					}
					corpus = append(corpus, cs)
				}
			}
		}
		core.RunLeg(c, core.Leg[c09Case]{
			Name: "P", Kind: "correspondence+oracle",
			Rule:   "random patterns (literals, classes, anchors, lookarounds, numbered/named/explicitly numbered groups, alternation, quantifiers incl. optional groups and empty-matching loops, backreferences) × options (none, RightToLeft, ECMAScript, IgnoreCase, ExplicitCapture, capture-order) × inputs over {a,b,c,space,-,1,é,日,😀} × replacement strings from the $-grammar (valid, ambiguous, malformed, overflowing) × startAt in [-1,len] × count in {-2,-1,0,1,2,3,5}; non-trivial = at least one match; distinct by the whole case. Oracle (no model): Replace / ReplaceFunc / Split vs a fold over the matches enumerated with FindStringMatchStartingAt/FindNextMatch and an independent $-expansion; Replace(s,\"$&\")=s; Split pieces + matched texts rebuild the input. Correspondence: Lean scanner vs syntax.NewReplacerData (Rules, Strings); Lean replace/replaceFunc/split on Go's match sequence vs the strings Go returned; Lean validity predicate on Go's sequences",
			Corpus: corpus, N: c.N(20000, 1000000), Gen: c09Gen, Check: c09Check, Batch: 1000,
		})
		core.RunLeg(c, core.Leg[c09CacheCase]{
			Name: "K", Kind: "oracle",
			Rule:   "one Regexp with a replacement cache of 1/2/3/16 entries vs the same pattern compiled with the cache off: a sequence of 4-15 Replace calls drawing from 2-6 replacement strings (repeats, evictions) must return the same strings and errors; non-trivial = some call changes the input; distinct by the whole case",
			Corpus: []c09CacheCase{{Pattern: "(a)|b", Input: "abcab", Reps: []string{"$1", "x", "$1", "$&$&", "x", "$1"}, Cache: 1}},
			N:      c.N(3000, 60000), Gen: c09CacheGen, Check: c09CacheCheck, Batch: 500,
		})
	})
}
