package legs

import (
	"fmt"
	"math/rand"
	"os"
	"sort"
	"strings"
	"time"

	"rvharness/internal/core"
	"rvharness/internal/gen"

	regexp2 "github.com/dlclark/regexp2/v2"
	"github.com/dlclark/regexp2/v2/syntax"
)

// C05 leg Cz — the proved certifier for the auto-atomic / ending-backtracking decisions.
//
// Each pattern is parsed twice, with the rewrites of tree.go off (syntax.VerifDisableRewrites) and on;
// both trees are converted by gen.FromGoTree and sent to the Lean driver, whose `cert`
// (Model/AutoAtomic.lean, proved sound in Props/C05.lean: certified_find) walks them in parallel. The
// two oracle bits of the theorem — "no rune satisfies both tests" and "the runes of the test are all
// word characters or all non-word characters" — are computed here, exactly (on the boundary points of
// the two tests: range ends, single runes, Unicode-category transitions) from the structure of the
// engine's sets and Go's unicode tables; MayOverlap / CharIn of the engine are not consulted.

type czCase struct {
	Pattern string   `json:"pattern"`
	Opts    int32    `json:"opts"`
	CodeGen bool     `json:"codegen,omitempty"`
	Texts   [][]rune `json:"texts"`
	Seed    int64    `json:"seed"`
	Source  string   `json:"source,omitempty"`
	// set by the search: the input and start offset on which the two compilations differ
	Text  []rune `json:"text,omitempty"`
	Start int    `json:"start,omitempty"`
}

type czGen struct{ g *engGen }

// czDirected writes a pattern around one decision of canBeMadeAtomic: a single-character loop (every kind of
// test, greedy or lazy, minimum 0 or more), possibly at the end of a capture, an alternation branch or a
// counted group, followed by one to three continuation items (characters, sets, anchors, nullable loops,
// alternations, groups, lookarounds), with or without more pattern after them.
func czDirected(rng *rand.Rand) czCase {
	pick := func(xs []string) string { return xs[rng.Intn(len(xs))] }
	atoms := []string{"a", "b", `\n`, "-", `\w`, `\d`, `\s`, `\W`, `\D`, `\S`, "[ab]", "[^a]", `[^\n]`, ".", `[\n-]`, "é", "[a-c]", `[\w-]`, "1"}
	quants := []string{"*", "+", "?", "{1,3}", "*?", "+?", "{0,2}?", "{2,}", "{1,}?", "*", "+"}
	conts := []string{"a", "b", "c", "-", `\n`, `\w`, `\d`, `\s`, `\W`, `\S`, "[ab]", "[bc]", "[^a]", `\b`, `\B`, "$", `\z`, `\Z`,
		"b*", "c?", `\s*`, "-*", "a*", `\w*`, "(?:b|c)", "(?:b*|c)", "(?:a|c)", "(b)", "(?>c)", "(?=b)", "(?!b)", "(?=a)", "bc", "ab", "ba",
		`(?:c\b|$)`, "(?(?=b)b|c)", "(c+)", "(?:-|$)", `\b-`, `\Bx`, `$\n`, "(?:)", "(b*)", "(?>b*)", "(?:b*)+", "(?:cb*)+"}
	loop := func() string { return pick(atoms) + pick(quants) }
	var b strings.Builder
	if rng.Intn(3) == 0 {
		b.WriteString(pick([]string{"x", "^", `\G`, "(?:x|y)", "c?"}))
	}
	switch rng.Intn(8) {
	case 0:
		b.WriteString("(x" + loop() + ")")
	case 1:
		b.WriteString("(?:x" + loop() + "|y" + loop() + ")")
	case 2:
		b.WriteString("(?:" + loop() + pick(conts) + "){2}")
	case 3:
		b.WriteString("(?:" + pick([]string{"c", "ca", "b", "-"}) + loop() + ")" + pick([]string{"{2}", "+", "*", "{1,2}", "?"}))
	case 4:
		b.WriteString("(?>" + loop() + pick(conts) + ")")
	default:
		b.WriteString(loop())
	}
	anchors := []string{`\b`, `\B`, "$", `\z`, `\Z`, `\b`, `\B`, "$"}
	for k := 1 + rng.Intn(3); k > 0; k-- {
		if rng.Intn(3) == 0 {
			b.WriteString(pick(anchors))
		} else {
			b.WriteString(pick(conts))
		}
	}
	if rng.Intn(3) == 0 {
		b.WriteString(pick([]string{"x", "a", `\n`, "(?<=a)", "b*"}))
	}
	opts := []regexp2.RegexOptions{0, 0, 0, regexp2.Multiline, regexp2.RE2, regexp2.IgnoreCase, regexp2.Singleline, regexp2.Multiline | regexp2.Singleline, regexp2.RE2 | regexp2.Multiline}
	return czCase{Pattern: strings.ReplaceAll(b.String(), `\\`, `\`), Opts: int32(opts[rng.Intn(len(opts))]), CodeGen: rng.Intn(3) == 0, Seed: rng.Int63(), Source: "directed"}
}

func (z *czGen) next(rng *rand.Rand, i int) czCase {
	if rng.Intn(3) == 0 {
		return czDirected(rng)
	}
	z.g.queue = z.g.queue[:0]
	z.g.fill(rng)
	q := z.g.queue
	cs := czCase{Pattern: q[0].Pattern, Opts: q[0].Opts, CodeGen: q[0].CodeGen, Source: q[0].Source, Seed: rng.Int63()}
	for _, e := range q {
		if e.RawHex == "" {
			cs.Texts = append(cs.Texts, e.Text)
		}
	}
	z.g.queue = z.g.queue[:0]
	return cs
}

// czTable: every kind of single-character loop against every kind of continuation canBeMadeAtomic
// distinguishes (and the ones it must reject), bare and with something after, with and without Multiline.
func czTable() []czCase {
	loops := []string{"a*", "a+", `\n*`, `\n+`, "[^a]*", `[^\n]*`, "[ab]*", "[ab]+", `\w+`, `\w*`, `\s*`, `\d+`, `[\n-]+`, "-+", `\W+`, `\D+`, "a*?", "[ab]*?", `\s+?`, "a{1,3}", "[^a]+"}
	conts := []string{"a", "b", `\n`, "-", "[ab]", "[bc]", "[^a]", "[^b]", "ab", "ba", `\nx`, "a+", "b+", "a*c", "b*c", "b*a", "b*", "[ab]*c", "[cd]*a", "[cd]*",
		`\z`, `\Z`, "$", `\b`, `\B`, `\bx`, `\Bx`, `\b-`, `\B-`, `$\n`, `\Z\n`, "(?:b|c)", "(?:a|c)", "(?:b*|c)", "(b)", "(?>b)", "(?=b)", "(?=a)", "(?!b)", "b?c", `\s*x`, `\w*-`, ""}
	var out []czCase
	for _, l := range loops {
		for _, k := range conts {
			for _, o := range []regexp2.RegexOptions{0, regexp2.Multiline} {
				if o != 0 && !strings.Contains(k, "$") {
					continue
				}
				out = append(out, czCase{Pattern: strings.ReplaceAll("x"+l+k, `\\`, `\`), Opts: int32(o), Source: "table"})
			}
		}
	}
	return out
}

var czCorpus = append([]czCase{
	{Pattern: `a*b`, Source: "corpus"},
	{Pattern: `a*?b`, Source: "corpus"},
	{Pattern: `a*b*c*`, Source: "corpus"},
	{Pattern: `[ab]*[cd]x`, Source: "corpus"},
	{Pattern: `\w+\b-`, Source: "corpus"},
	{Pattern: `\d+$`, Source: "corpus"},
	{Pattern: `[^\n]*\Z`, Source: "corpus"},
	{Pattern: `(x a*|c*)b`, Opts: int32(regexp2.IgnorePatternWhitespace), Source: "corpus"},
	{Pattern: `a*(?:b|c)d`, Source: "corpus"},
	{Pattern: `a*(?=b)`, Source: "corpus"},
	{Pattern: `x(?:ab*|c+)?`, Source: "corpus"},
	{Pattern: `(?>a*b*?)c`, Source: "corpus"},
	{Pattern: `([ab]*)[bc]*c\1`, Source: "corpus"},   // D8
	{Pattern: `(?<=(?:a*ba){2})c`, Source: "corpus"}, // D40
	{Pattern: `-+\B`, Source: "corpus"},              // KF2
	{Pattern: `\W+\B`, Source: "corpus"},             // KF2
	{Pattern: `-+\Bx`, Source: "corpus"},
}, czTable()...)

// the leaf tests of a tree S-expression, in order of first appearance; loops: the tests that sit directly
// under a quant
func czLeaves(n *sx, under bool, leaves map[string]*sx, loops map[string]bool) {
	if n == nil || n.leaf {
		return
	}
	switch n.head() {
	case "chr":
		a := n.args()
		if len(a) == 1 {
			k := czRender(a[0])
			leaves[k] = a[0]
			if under {
				loops[k] = true
			}
		}
		return
	case "quant":
		a := n.args()
		if len(a) == 4 {
			czLeaves(a[3], true, leaves, loops)
		}
		return
	}
	for _, c := range n.args() {
		czLeaves(c, false, leaves, loops)
	}
}

func czRender(n *sx) string {
	if n.leaf {
		return n.atom
	}
	parts := make([]string, len(n.list))
	for i, c := range n.list {
		parts[i] = czRender(c)
	}
	return "(" + strings.Join(parts, " ") + ")"
}

func czPred(n *sx) (leanSet, error) {
	s, ok, err := parseLeanSet(&sx{list: []*sx{{atom: "some", leaf: true}, n}})
	if err != nil || !ok {
		return nil, fmt.Errorf("bad pred: %v", err)
	}
	return s, nil
}

var czWordBounds = func() func(re2 bool) []rune {
	return func(re2 bool) []rune {
		if re2 {
			return []rune{'0' - 1, '0', '9', '9' + 1, 'A' - 1, 'A', 'Z', 'Z' + 1, '_' - 1, '_', '_' + 1, 'a' - 1, 'a', 'z', 'z' + 1}
		}
		return catBounds("\x00word-for-boundary", syntax.IsWordChar)
	}
}()

func czIsWord(re2 bool, r rune) bool {
	if re2 {
		return 'A' <= r && r <= 'Z' || 'a' <= r && r <= 'z' || '0' <= r && r <= '9' || r == '_'
	}
	return syntax.IsWordChar(r)
}

// czOracle computes the two oracle tables for a pair of trees.
func czOracle(gt *gen.GoTree, trees []*sx, re2 bool) (disj, uni []string, err error) {
	leaves, loops := map[string]*sx{}, map[string]bool{}
	for _, t := range trees {
		czLeaves(t, false, leaves, loops)
	}
	nl := "(one 10 0)"
	if _, ok := leaves[nl]; !ok {
		n, _ := parseSx(nl)
		leaves[nl] = n
	}
	keys := make([]string, 0, len(leaves))
	for k := range leaves {
		keys = append(keys, k)
	}
	sort.Strings(keys)
	sets := map[string]leanSet{}
	pts := map[string][]rune{}
	for _, k := range keys {
		s, e := czPred(leaves[k])
		if e != nil {
			return nil, nil, e
		}
		sets[k] = s
		p := newPointSet()
		s.bounds(gt, p)
		pts[k] = p.sorted()
	}
	for _, a := range keys {
		if !loops[a] {
			continue
		}
		for _, b := range keys {
			overlap := false
			for _, lst := range [][]rune{pts[a], pts[b]} {
				for _, r := range lst {
					if sets[a].in(r, gt.Named) && sets[b].in(r, gt.Named) {
						overlap = true
						break
					}
				}
				if overlap {
					break
				}
			}
			if !overlap {
				disj = append(disj, "("+a+" "+b+")")
			}
		}
		// uniform word-ness: on the points of the test and of the word class
		seenW, seenN := false, false
		for _, lst := range [][]rune{pts[a], czWordBounds(re2)} {
			for _, r := range lst {
				if sets[a].in(r, gt.Named) {
					if czIsWord(re2, r) {
						seenW = true
					} else {
						seenN = true
					}
				}
			}
		}
		if !(seenW && seenN) {
			uni = append(uni, a)
		}
	}
	return disj, uni, nil
}

type czPrepared struct {
	on, off *syntax.RegexTree
	gt      *gen.GoTree
	re2     bool
	s0, s1  string
}

// CZ_DEBUG=<file>: append every pair that is not certified (pattern, both trees, Lean's answer)
var czDebug = os.Getenv("CZ_DEBUG")

func czParse(cs *czCase, off bool) (*syntax.RegexTree, error) {
	syntax.VerifDisableRewrites = off
	defer func() { syntax.VerifDisableRewrites = false }()
	return safeParse(cs.Pattern, syntax.ParseOptions{RegexOptions: syntax.RegexOptions(cs.Opts), CodeGen: cs.CodeGen})
}

// czKF2 reports whether a pending site is of the shape of the carried finding KF2: a loop over runes
// that are all non-word characters (or the engine's \D) that passed a \B.
func czKF2(gt *gen.GoTree, re2 bool, site *sx, why int) bool {
	if why != 17 || site.head() != "btw" || len(site.args()) != 1 {
		return false
	}
	s, err := czPred(site.args()[0])
	if err != nil {
		return false
	}
	p := newPointSet()
	s.bounds(gt, p)
	anyWord := false
	for _, lst := range [][]rune{p.sorted(), czWordBounds(re2)} {
		for _, r := range lst {
			if s.in(r, gt.Named) && czIsWord(re2, r) {
				anyWord = true
			}
		}
	}
	if !anyWord {
		return true
	}
	// \D: the engine's own condition n.Set.Equals(NotDigitClass())
	return czRender(site.args()[0]) == czNotDigit(gt)
}

func czNotDigit(gt *gen.GoTree) string {
	t, err := safeParse(`\D`, syntax.ParseOptions{})
	if err != nil {
		return ""
	}
	g := gen.FromGoTreeShared(t, gt)
	n, err := parseSx(g.Sexp)
	if err != nil || n.head() != "chr" {
		return ""
	}
	return czRender(n.args()[0])
}

func czCheck(c *core.Ctx, cases []czCase) []core.Outcome {
	outs := make([]core.Outcome, len(cases))
	prep := make([]*czPrepared, len(cases))
	var send, endSend []string
	var idx, endIdx []int
	for i := range cases {
		cs := &cases[i]
		o := &outs[i]
		o.Key = fmt.Sprintf("%d|%v|%s", cs.Opts, cs.CodeGen, cs.Pattern)
		if cs.Text != nil {
			// replay of a found violation: compare the two compilations on the recorded input
			if f := czDiffer(cs, cs.Text, cs.Start); f != nil {
				o.Fail = f
			}
			continue
		}
		on, err := czParse(cs, false)
		if err != nil {
			o.Buckets = append(o.Buckets, "compile-error")
			continue
		}
		off, err := czParse(cs, true)
		if err != nil {
			o.Buckets = append(o.Buckets, "compile-error")
			continue
		}
		rtl := on.Options&syntax.RightToLeft != 0
		if rtl {
			o.Buckets = append(o.Buckets, "right-to-left-pattern")
		}
		g0 := gen.FromGoTree(off)
		if g0.Unsupported != "" {
			o.Buckets = append(o.Buckets, "tree-unsupported")
			continue
		}
		g1 := gen.FromGoTreeShared(on, g0)
		if g1.Unsupported != "" {
			o.Buckets = append(o.Buckets, "tree-unsupported")
			continue
		}
		if !rtl {
			endIdx = append(endIdx, i)
			endSend = append(endSend, "(c05 endfix "+g1.Sexp+")")
		}
		if g0.Sexp == g1.Sexp {
			o.Buckets = append(o.Buckets, "trees-equal")
			continue
		}
		t0, e0 := parseSx(g0.Sexp)
		t1, e1 := parseSx(g1.Sexp)
		if e0 != nil || e1 != nil {
			o.Buckets = append(o.Buckets, "tree-unsupported")
			continue
		}
		re2 := regexp2.RegexOptions(cs.Opts)&regexp2.RE2 != 0
		disj, uni, err := czOracle(g0, []*sx{t0, t1}, re2)
		if err != nil {
			o.Buckets = append(o.Buckets, "tree-unsupported")
			continue
		}
		prep[i] = &czPrepared{on: on, off: off, gt: g0, re2: re2, s0: g0.Sexp, s1: g1.Sexp}
		idx = append(idx, i)
		send = append(send, fmt.Sprintf("(c05 cert %s %s %s (disj %s) (uni %s))", core.SBool(rtl), g0.Sexp, g1.Sexp, strings.Join(disj, " "), strings.Join(uni, " ")))
		o.Nontrivial = true
	}
	res, err := c.RunDriver(send)
	if err != nil {
		for i := range outs {
			if outs[i].Fail == nil {
				outs[i].Fail = core.DriverFailure(err)
				break
			}
		}
		return outs
	}
	for n, i := range idx {
		czCompare(&cases[i], prep[i], res[n], &outs[i])
	}
	// the engine's final tree against Lean's function model of eliminateEndingBacktracking (endAtomicTop;
	// Props.C05.endAtomic_sound): applying the model to what the engine produced must change nothing
	if eres, err := c.RunDriver(endSend); err == nil {
		for n, i := range endIdx {
			if eres[n] == "(ok 1)" {
				outs[i].Buckets = append(outs[i].Buckets, "endfix:fixed-point")
			} else {
				outs[i].Buckets = append(outs[i].Buckets, "endfix:model-would-rewrite-more")
				if outs[i].Fail == nil {
					outs[i].Fail = &core.Failure{Kind: "correspondence-break", Key: "Cz:endfix",
						Summary:  fmt.Sprintf("the engine's final tree is not a fixed point of Lean's model of eliminateEndingBacktracking (endAtomicTop): pattern %q opts %d", cases[i].Pattern, cases[i].Opts),
						Expected: "endAtomicTop tree = tree", Got: endSend[n]}
				}
				if czDebug != "" {
					if f, err := os.OpenFile(czDebug, os.O_APPEND|os.O_CREATE|os.O_WRONLY, 0o644); err == nil {
						fmt.Fprintf(f, "ENDFIX %q opts %d\n  %s\n", cases[i].Pattern, cases[i].Opts, endSend[n])
						f.Close()
					}
				}
			}
		}
	}
	return outs
}

func czCompare(cs *czCase, pp *czPrepared, answer string, o *core.Outcome) {
	a, err := parseSx(answer)
	if err != nil || a.head() != "ok" || len(a.args()) != 3 {
		o.Fail = &core.Failure{Kind: "correspondence-break", Key: "Cz:driver-answer", Summary: "unreadable driver answer for pattern " + fmt.Sprintf("%q", cs.Pattern), Got: answer}
		return
	}
	ok := a.args()[0].atom == "1"
	made := 0
	if mk := a.find("made"); mk != nil && len(mk.args()) == 1 {
		made = mk.args()[0].int()
	}
	o.Buckets = append(o.Buckets, fmt.Sprintf("sites:%d", min(made, 4)))
	if ok {
		o.Buckets = append(o.Buckets, "certified")
		return
	}
	if czDebug != "" {
		if f, err := os.OpenFile(czDebug, os.O_APPEND|os.O_CREATE|os.O_WRONLY, 0o644); err == nil {
			fmt.Fprintf(f, "PATTERN %q opts %d\n  off %s\n  on  %s\n  ans %s\n", cs.Pattern, cs.Opts, pp.s0, pp.s1, answer)
			f.Close()
		}
	}
	var alarms []string
	other, rtlBody := false, false
	// a KF2-shaped site loses the first success for the whole concatenation: the other sites pending at the
	// same place for the same reason (why = 17) are collateral
	kf2 := false
	for _, e := range a.find("errs").args() {
		if e.head() == "pending" && czKF2(pp.gt, pp.re2, e.args()[0], e.args()[1].int()) {
			kf2 = true
		}
	}
	for _, e := range a.find("errs").args() {
		switch e.head() {
		case "other":
			if e.args()[0].atom == "40" {
				// a loop made atomic at the end of the body of a right-to-left loop (lookbehind in tail position):
				// not modelled, but searched — canBeMadeAtomic reads such bodies left to right
				rtlBody = true
				o.Buckets = append(o.Buckets, "rtl-loop-body(unmodelled)")
				continue
			}
			other = true
			o.Buckets = append(o.Buckets, "other-rewrite:"+e.args()[0].atom)
		case "blocked":
			o.Buckets = append(o.Buckets, "not-certified:blocked-by-"+e.args()[1].atom)
			alarms = append(alarms, czRender(e))
		case "pending":
			why := e.args()[1].int()
			if czKF2(pp.gt, pp.re2, e.args()[0], why) {
				o.Buckets = append(o.Buckets, "known-finding-KF2")
				continue
			}
			if kf2 && why == 17 {
				o.Buckets = append(o.Buckets, "known-finding-KF2(collateral-site)")
				continue
			}
			o.Buckets = append(o.Buckets, fmt.Sprintf("not-certified:pending-%d", why))
			alarms = append(alarms, czRender(e))
		}
	}
	if len(alarms) == 0 {
		if other {
			o.Buckets = append(o.Buckets, "pattern-with-other-rewrite")
		}
		if rtlBody {
			if text, start, f := czSearch(cs); f != nil {
				cs.Text, cs.Start = text, start
				f.Key = "Cz:rtl-loop-body-changes-result"
				o.Fail = f
			}
		}
		return
	}
	// an engine decision of a modelled shape that Lean does not certify: search for an input on which the
	// rewritten and the un-rewritten pattern differ
	if text, start, f := czSearch(cs); f != nil {
		cs.Text, cs.Start = text, start
		o.Fail = f
		return
	}
	if other {
		// the two trees also differ by a rewrite cert does not model, so the walk may be misaligned: the
		// rejected site is counted, not reported (a differing input would have been a violation above)
		o.Buckets = append(o.Buckets, "not-certified-beside-other-rewrite")
		return
	}
	o.Fail = &core.Failure{Kind: "correspondence-break", Key: "Cz:not-certified",
		Summary:  fmt.Sprintf("the engine made a loop atomic where the proved certifier cannot justify it: pattern %q opts %d", cs.Pattern, cs.Opts),
		Expected: "every auto-atomic / ending decision of the engine certified by Lean's cert", Got: strings.Join(alarms, " ")}
}

func czCompile(cs *czCase) (on, off *regexp2.Regexp, err error) {
	e := engCase{Pattern: cs.Pattern, Opts: cs.Opts, CodeGen: cs.CodeGen}
	return compilePair(&e)
}

// czDiffer compares the two compilations on one input from one start offset.
func czDiffer(cs *czCase, text []rune, s int) *core.Failure {
	on, off, err := czCompile(cs)
	if err != nil {
		return nil
	}
	return czDifferWith(cs, on, off, text, s)
}

func czDifferWith(cs *czCase, on, off *regexp2.Regexp, text []rune, s int) *core.Failure {
	a, e1 := regexp2.VerifNaiveScan(off, text, s, s, -1, false)
	b, e2 := regexp2.VerifNaiveScan(on, text, s, s, -1, false)
	if e1 != nil || e2 != nil {
		return nil
	}
	if x, y := renderFull(a), renderFull(b); x != y {
		return &core.Failure{Kind: "impl-violation", Key: "Cz:rewrite-changes-result",
			Summary:  fmt.Sprintf("a rewrite the certifier rejects changes the result: pattern %q opts %d input %q start %d", cs.Pattern, cs.Opts, string(text), s),
			Expected: x, Got: y}
	}
	return nil
}

func czSearch(cs *czCase) ([]rune, int, *core.Failure) {
	on, off, err := czCompile(cs)
	if err != nil {
		return nil, 0, nil
	}
	on.MatchTimeout, off.MatchTimeout = time.Second, time.Second
	rng := rand.New(rand.NewSource(cs.Seed))
	inputs := append([][]rune{}, cs.Texts...)
	stripped := []rune(strings.NewReplacer(`\`, "", "(", "", ")", "", "[", "", "]", "", "*", "", "+", "", "?", "", "|", "", "^", "", "$", "", "{", "", "}", "", ",", "").Replace(cs.Pattern))
	alpha := append([]rune("ab-\n 1_"), stripped...)
	if len(stripped) == 0 {
		stripped = alpha
	}
	for k := 0; k < 1500; k++ {
		var s []rune
		for j := 1 + rng.Intn(10); j > 0; j-- {
			if rng.Intn(4) == 0 {
				s = append(s, alpha[rng.Intn(len(alpha))])
			} else {
				s = append(s, stripped[rng.Intn(len(stripped))])
			}
		}
		inputs = append(inputs, s)
	}
	for _, in := range inputs {
		for s := 0; s <= len(in); s++ {
			if f := czDifferWith(cs, on, off, in, s); f != nil {
				return in, s, f
			}
		}
	}
	return nil, 0, nil
}

func c05RegisterCert(c *core.Ctx) {
	z := &czGen{g: &engGen{allowRTL: true, perPat: 8, maxLen: 10, biasRewrite: true}}
	core.RunLeg(c, core.Leg[czCase]{
		Name: "Cz", Kind: "correspondence(certifier)+search",
		Rule: "one third site-directed patterns (a single-character loop of every kind, greedy/lazy, bare or ending a capture / alternation branch / counted group / atomic group, followed by one to three continuation items drawn from characters, sets, \\b \\B $ \\z \\Z, nullable loops, alternations, groups, lookarounds, conditionals), two thirds patterns as leg R (the shapes the rewrites look for; right-to-left patterns included — the engine does not rewrite them, so their trees must come out equal or differ by certified tail rewrites). Each pattern is parsed with the rewrites off and on; both trees (gen.FromGoTree) go to Lean's cert (Model/AutoAtomic.lean; Props.C05.certified_find: a certified pair has the same find result from every start), with the oracle bits 'disjoint' and 'uniformly word/non-word' computed exactly from the structure of the engine's sets and Go's unicode tables on the boundary points of the tests. Buckets: trees-equal, certified (every difference is a modelled rewrite and is justified), other-rewrite:<code> (a tree difference cert does not model: prefix factoring, atomic-alternation reordering, loop-body sites …; counted, not an alarm), known-finding-KF2 (a loop over non-word runes still pending after passing \\B), not-certified:<reason>. A not-certified pattern starts a search (the pattern's directed inputs, 1500 random strings mostly over its own characters, every start offset) for an input on which the two compilations differ through the naive scan: found → impl-violation, not found → correspondence-break. Independently, the engine's final left-to-right tree must be a fixed point of Lean's function model of eliminateEndingBacktracking (endAtomicTop, Props.C05.endAtomic_sound): bucket endfix:fixed-point, else correspondence-break. non-trivial = the trees differ and were sent to Lean",
		N:    c.N(1500, 60000), Corpus: czCorpus, Gen: z.next, Check: czCheck, Batch: 500,
	})
}
