package legs

import (
	"fmt"
	"math/rand"
	"strings"
	"sync"
	"unicode"

	"rvharness/internal/gen"

	"rvharness/internal/core"

	regexp2 "github.com/dlclark/regexp2/v2"
	"github.com/dlclark/regexp2/v2/syntax"
)

// C04 — compile-time facts published for a pattern hold at every real match.
// Oracle H: every position at which the single-position attempt hook finds a match is checked against
// every fact the compiler published (FindOptimizations, FcPrefix, BmPrefix, Anchors).

func foldEq(a, b rune) bool {
	if a == b || unicode.ToLower(a) == unicode.ToLower(b) || unicode.ToUpper(a) == unicode.ToUpper(b) {
		return true
	}
	for f := unicode.SimpleFold(a); f != a; f = unicode.SimpleFold(f) {
		if f == b {
			return true
		}
	}
	return false
}

func hasPrefixAt(text []rune, p int, lit []rune, ci bool) bool {
	if p < 0 || p+len(lit) > len(text) {
		return false
	}
	for i, r := range lit {
		if ci {
			if !foldEq(text[p+i], r) {
				return false
			}
		} else if text[p+i] != r {
			return false
		}
	}
	return true
}

func anchorHoldsAt(t syntax.NodeType, text []rune, p, textstart int, re2OrEcma bool) (bool, bool) {
	n := len(text)
	switch t {
	case syntax.NtBeginning:
		return p == 0, true
	case syntax.NtStart:
		return p == textstart, true
	case syntax.NtEnd:
		return p == n, true
	case syntax.NtEndZ:
		if re2OrEcma {
			return p == n, true
		}
		return p == n || (p == n-1 && text[p] == '\n'), true
	case syntax.NtBol:
		return p == 0 || text[p-1] == '\n', true
	case syntax.NtEol:
		return p == n || text[p] == '\n', true
	}
	return true, false // boundaries etc.: not checked here
}

type c04Fact struct {
	name string
	ok   bool
}

// c04Facts evaluates every published fact at a real match (attempt position p, match idx/len).
func c04Facts(re *regexp2.Regexp, text []rune, p, textstart, idx, length int) []c04Fact {
	code := regexp2.VerifCode(re)
	var out []c04Fact
	add := func(name string, ok bool) { out = append(out, c04Fact{name, ok}) }
	rtl := code.RightToLeft
	re2OrEcma := false
	fo := code.FindOptimizations
	n := len(text)
	// the options are not exported through the code: derive the EndZ dialect from behaviour of the anchor itself is circular,
	// so take it from the regexp's pattern options via a probe: \Z semantics differ only in RE2/ECMAScript mode
	re2OrEcma = c04StrictEndZ(re)
	if fo != nil {
		// MinRequiredLength is published (and consumed by the scan loop and by code generators) as "the input
		// must have at least this many runes from the match start on" — with a leading positive lookahead it
		// includes text the match itself does not consume, so it is checked against the remaining input.
		if rtl {
			add("MinRequiredLength", p >= fo.MinRequiredLength)
		} else {
			add("MinRequiredLength", n-p >= fo.MinRequiredLength)
		}
		if fo.MaxPossibleLength >= 0 {
			add("MaxPossibleLength", length <= fo.MaxPossibleLength)
		}
		if fo.LeadingAnchor != syntax.NtUnknown && fo.LeadingAnchor != 0 {
			if ok, checked := anchorHoldsAt(fo.LeadingAnchor, text, p, textstart, re2OrEcma); checked {
				add("LeadingAnchor", ok)
			}
		}
		if !rtl && fo.TrailingAnchor != syntax.NtUnknown && fo.TrailingAnchor != 0 {
			if ok, checked := anchorHoldsAt(fo.TrailingAnchor, text, idx+length, textstart, re2OrEcma); checked {
				add("TrailingAnchor", ok)
			}
		}
		switch fo.FindMode {
		case syntax.LeadingString_LeftToRight:
			add("LeadingPrefix", hasPrefixAt(text, p, []rune(fo.LeadingPrefix), false))
		case syntax.LeadingString_OrdinalIgnoreCase_LeftToRight:
			add("LeadingPrefix(ci)", hasPrefixAt(text, p, []rune(fo.LeadingPrefix), true))
		case syntax.LeadingString_RightToLeft:
			l := []rune(fo.LeadingPrefix)
			add("LeadingPrefix(rtl)", hasPrefixAt(text, p-len(l), l, false))
		case syntax.LeadingStrings_LeftToRight, syntax.LeadingStrings_OrdinalIgnoreCase_LeftToRight:
			any := false
			for _, pr := range fo.LeadingPrefixes {
				if hasPrefixAt(text, p, []rune(pr), fo.FindMode == syntax.LeadingStrings_OrdinalIgnoreCase_LeftToRight) {
					any = true
				}
			}
			add("LeadingPrefixes", any)
			// the case-sensitive search keys on the first runes of the prefixes; LeadingPrefixesRunes must be
			// the same strings as LeadingPrefixes
			if fo.FindMode == syntax.LeadingStrings_LeftToRight && len(fo.LeadingPrefixFirstRunes) > 0 {
				ok := false
				for _, fr := range fo.LeadingPrefixFirstRunes {
					if p < n && text[p] == fr {
						ok = true
					}
				}
				add("LeadingPrefixFirstRunes", ok)
			}
			if len(fo.LeadingPrefixesRunes) > 0 {
				ok := len(fo.LeadingPrefixesRunes) == len(fo.LeadingPrefixes)
				for k := range fo.LeadingPrefixesRunes {
					ok = ok && k < len(fo.LeadingPrefixes) && string(fo.LeadingPrefixesRunes[k]) == fo.LeadingPrefixes[k]
				}
				add("LeadingPrefixesRunes", ok)
			}
		case syntax.FixedDistanceChar_LeftToRight:
			d := fo.FixedDistanceLiteral.Distance
			add("FixedDistanceChar", p+d < n && text[p+d] == fo.FixedDistanceLiteral.C)
		case syntax.FixedDistanceString_LeftToRight:
			add("FixedDistanceString", hasPrefixAt(text, p+fo.FixedDistanceLiteral.Distance, []rune(fo.FixedDistanceLiteral.S), false))
		case syntax.LeadingChar_RightToLeft:
			add("LeadingChar(rtl)", p-1 >= 0 && text[p-1] == fo.FixedDistanceLiteral.C)
		case syntax.LiteralAfterLoop_LeftToRight:
			l := fo.LiteralAfterLoop
			ok := false
			if l != nil && l.LoopNode != nil && l.LoopNode.Set != nil {
				for q := p; q <= n; q++ {
					switch {
					case l.String != "":
						ok = ok || hasPrefixAt(text, q, []rune(l.String), l.StringIgnoreCase)
					case len(l.Chars) > 0:
						for _, ch := range l.Chars {
							ok = ok || (q < n && text[q] == ch)
						}
					default:
						ok = ok || (q < n && text[q] == l.Char)
					}
					if ok || q == n || !l.LoopNode.Set.CharIn(text[q]) {
						break
					}
				}
				add("LiteralAfterLoop", ok)
			}
		}
		for _, fs := range fo.FixedDistanceSets {
			q := p + fs.Distance
			if rtl {
				q = p - 1 - fs.Distance
			}
			in := q >= 0 && q < n && fs.Set.CharIn(text[q])
			add("FixedDistanceSet", in)
			if in && len(fs.Chars) > 0 && !fs.Negated {
				found := false
				for _, ch := range fs.Chars {
					found = found || ch == text[q]
				}
				add("FixedDistanceSet.Chars", found)
			}
			if in && fs.Range != nil {
				inr := text[q] >= fs.Range.First && text[q] <= fs.Range.Last
				add("FixedDistanceSet.Range", inr != fs.Negated)
			}
		}
	}
	if code.FcPrefix != nil {
		q := p
		if rtl {
			q = p - 1
		}
		ok := false
		if q >= 0 && q < n {
			ch := text[q]
			if code.FcPrefix.CaseInsensitive {
				ch = unicode.ToLower(ch)
			}
			ok = code.FcPrefix.PrefixSet.CharIn(ch)
		}
		add("FcPrefix", ok)
	}
	if code.BmPrefix != nil {
		pat := []rune(code.BmPrefix.String())
		_ = pat
	}
	for _, a := range []struct {
		bit syntax.AnchorLoc
		t   syntax.NodeType
	}{{syntax.AnchorBeginning, syntax.NtBeginning}, {syntax.AnchorStart, syntax.NtStart}, {syntax.AnchorEnd, syntax.NtEnd},
		{syntax.AnchorEndZ, syntax.NtEndZ}, {syntax.AnchorBol, syntax.NtBol}, {syntax.AnchorEol, syntax.NtEol}} {
		if code.Anchors&a.bit != 0 {
			ok, _ := anchorHoldsAt(a.t, text, p, textstart, re2OrEcma)
			add(fmt.Sprintf("Anchors.%d", a.bit), ok)
		}
	}
	return out
}

// c04StrictEndZ reports whether \Z means "only at the very end" for this regexp (RE2 / ECMAScript).
func c04StrictEndZ(re *regexp2.Regexp) bool {
	// read the dialect from the options the pattern was compiled with (kept by the harness in a side table)
	if v, ok := c04Dialect.Load(re); ok {
		return v.(bool)
	}
	return false
}

var c04Dialect sync.Map

func c04Check(c *core.Ctx, cases []engCase) []core.Outcome {
	outs := make([]core.Outcome, len(cases))
	cache := newEngCache()
	for i := range cases {
		cs := &cases[i]
		o := &outs[i]
		o.Key = fmt.Sprintf("%d|%v|%s|%s|%d", cs.Opts, cs.CodeGen, cs.Pattern, cs.str(), cs.Start)
		cp := cache.get(cs)
		if cp.err != nil {
			o.Buckets = append(o.Buckets, "compile-error")
			continue
		}
		re := cp.re
		c04Dialect.Store(re, regexp2.RegexOptions(cs.Opts)&(regexp2.RE2|regexp2.ECMAScript) != 0)
		text := cs.Text
		o.Buckets = append(o.Buckets, findModeName(re))
		matches := 0
		for p := 0; p <= len(text) && o.Fail == nil; p++ {
			m, err := regexp2.VerifAttemptAt(re, text, p, cs.Start, false)
			if err != nil || m == nil {
				continue
			}
			matches++
			for _, f := range c04Facts(re, text, p, cs.Start, m.RuneIndex, m.RuneLength) {
				o.Buckets = append(o.Buckets, "fact="+f.name)
				if !f.ok {
					o.Fail = &core.Failure{Kind: "impl-violation", Key: "C04:" + f.name + ":" + findModeName(re),
						Summary:  fmt.Sprintf("published fact %s is false at a real match: pattern %q opts %d codegen=%v input %q attempt position %d (\\G origin %d) match (%d,%d)", f.name, cs.Pattern, cs.Opts, cs.CodeGen, cs.str(), p, cs.Start, m.RuneIndex, m.RuneLength),
						Expected: "fact holds", Got: regexp2.VerifCode(re).FindOptimizations.Dump()}
					break
				}
			}
		}
		o.Nontrivial = matches > 0
		if matches > 0 {
			o.Buckets = append(o.Buckets, "has-match")
		}
	}
	return outs
}

// Leg F: the Lean analysers (Model/Facts.lean: minLen, maxLen, edge anchors, leading prefix) run on
// the engine's own tree must reproduce the engine's own analysis results (verif hook VerifFacts).
func c04AnchorName(t syntax.NodeType, strictEndZ bool) string {
	switch t {
	case syntax.NtBol:
		return "bol"
	case syntax.NtEol:
		return "eol"
	case syntax.NtBoundary:
		return "boundary"
	case syntax.NtBeginning:
		return "beginning"
	case syntax.NtStart:
		return "start"
	case syntax.NtEndZ:
		if strictEndZ {
			return "end"
		}
		return "endz"
	case syntax.NtEnd:
		return "end"
	case syntax.NtUnknown:
		return "none"
	}
	return fmt.Sprintf("other-%d", t)
}

func c04FactsCheck(c *core.Ctx, cases []specCase) []core.Outcome {
	outs := make([]core.Outcome, len(cases))
	lines := make([]string, len(cases))
	goAns := make([]string, len(cases))
	for i := range cases {
		cs := &cases[i]
		o := &outs[i]
		gen.AssignGroups(cs.Ast, cs.Opts)
		pat := cs.Ast.Print(cs.Opts)
		cs.Pattern = pat
		o.Key = cs.Opts.String() + "|" + pat
		ro := regexOptions(cs.Opts)
		t, err := syntax.Parse(pat, syntax.ParseOptions{RegexOptions: syntax.RegexOptions(ro)})
		if err != nil {
			o.Buckets = append(o.Buckets, "compile-error")
			continue
		}
		gt := gen.FromGoTree(t)
		if gt.Unsupported != "" {
			o.Buckets = append(o.Buckets, "tree-unsupported")
			continue
		}
		mn, mx, lead, trail, prefix, cont := syntax.VerifFacts(t)
		strict := cs.Opts.RE2
		if cs.Opts.RTL && lead == syntax.NtBol {
			lead = syntax.NtUnknown // the published LeadingAnchor drops Bol for right-to-left patterns
		}
		// the tree handed to the analyses is the root capture; the model gets the pattern below it
		pb := make([]int, len(prefix))
		for k, b := range prefix {
			pb[k] = int(b)
		}
		if cs.Opts.RTL {
			pb, cont = nil, false
		}
		goAns[i] = fmt.Sprintf("(ok (minlen %d) (maxlen %d) (lead %s) (trail %s) (prefix %s %s))", mn, mx, c04AnchorName(lead, strict), c04AnchorName(trail, strict), core.SInts(pb), core.SBool(cont))
		lines[i] = fmt.Sprintf("(c04 facts %s %s)", core.SBool(cs.Opts.RTL), gt.Sexp)
		o.Nontrivial = cs.Ast.Size() > 1
		o.Buckets = append(o.Buckets, "converted")
		if len(prefix) > 0 {
			o.Buckets = append(o.Buckets, "has-prefix")
		}
		if lead != syntax.NtUnknown || trail != syntax.NtUnknown {
			o.Buckets = append(o.Buckets, "has-edge-anchor")
		}
	}
	var idx []int
	var send []string
	for i := range cases {
		if lines[i] != "" {
			idx = append(idx, i)
			send = append(send, lines[i])
		}
	}
	res, err := c.RunDriver(send)
	if err != nil {
		for i := range outs {
			if outs[i].Fail == nil {
				outs[i].Fail = core.DriverFailure(err)
				break
			}
		}
		return outs
	}
	for k, i := range idx {
		got := res[k]
		if cases[i].Opts.RTL {
			// the model's prefix analysis is the left-to-right one; not compared for right-to-left
			if p := strings.Index(got, " (prefix "); p >= 0 {
				got = got[:p] + " (prefix () 0))"
			}
		}
		if got != goAns[i] {
			// RE2: `$`, `\Z` and `\z` all mean "the very end" and the conversion maps them to one anchor, while the
			// engine's tree keeps different node types for them: an alternation mixing two spellings has an agreed
			// edge anchor in the model and none in Go (design.d/C04.md, "checked by hand", item 1)
			ends := 0
			for _, sp := range []string{"$", `\Z`, `\z`} {
				if strings.Contains(cases[i].Pattern, sp) {
					ends++
				}
			}
			if cases[i].Opts.RE2 && ends >= 2 {
				outs[i].Buckets = append(outs[i].Buckets, "tolerated:re2-mixed-end-anchors")
				continue
			}
			outs[i].Fail = &core.Failure{Kind: "correspondence-break", Key: "facts-model",
				Summary:  fmt.Sprintf("Lean analysers on the engine's tree differ from the engine's analyses: pattern %q options %s", cases[i].Pattern, cases[i].Opts),
				Expected: got, Got: goAns[i]}
		}
	}
	return outs
}

func init() {
	core.Register("C04", func(c *core.Ctx) {
		g := &engGen{allowRTL: true, perPat: 8, maxLen: 10, biasFind: true}
		core.RunLeg(c, core.Leg[engCase]{
			Name: "H", Kind: "oracle(facts-at-matches)",
			Rule: "patterns and inputs as C03 leg N; for every attempt position p of every input (0..len) the single-position attempt hook is run; at each position where it matches, every published fact is evaluated on the input: MinRequiredLength, MaxPossibleLength, LeadingAnchor, TrailingAnchor, LeadingPrefix (plain, OrdinalIgnoreCase, right-to-left), LeadingPrefixes (with LeadingPrefixFirstRunes and LeadingPrefixesRunes), FixedDistanceChar/String, FixedDistanceSets (set, Chars, Range, Negated), LiteralAfterLoop, LeadingChar/LeadingSet right-to-left, FcPrefix (with its case flag), the Anchors bit mask; required-landmark chains and the Boyer-Moore tables are covered through C03 (find = naive scan) only. non-trivial = the input has at least one real match; histogram lists which facts were evaluated",
			N:    c.N(8000, 300000), Corpus: engCorpus, Gen: g.next, Check: c04Check, Batch: 500,
		})
		var k int
		stL, stR := &specGenState{cfg: c01Config(false), perAst: 1, maxLen: 4}, &specGenState{cfg: c01Config(true), perAst: 1, maxLen: 4}
		core.RunLeg(c, core.Leg[specCase]{
			Name: "F", Kind: "correspondence(fact analysers)",
			Rule: "random ASTs of the C01 fragment (both directions, option sets) printed and parsed by syntax.Parse; the engine's own tree is converted to the specification's AST and the Lean models of ComputeMinLength, computeMaxLength, findLeadingOrTrailingAnchor (leading, trailing) and tryFindPrefix (bytes + continue flag, left-to-right) must return exactly what the Go functions return on that tree (verif hook VerifFacts). One case per pattern; non-trivial = more than one AST node. Trees with an interior node whose direction bit contradicts its position are skipped and counted",
			N:    c.N(4000, 200000), Gen: func(rng *rand.Rand, i int) specCase {
				k++
				if k%3 == 0 {
					return stR.next(rng, i)
				}
				return stL.next(rng, i)
			}, Check: c04FactsCheck, Batch: 2000,
		})
		// leg V (c04sets.go): the proved validator for the set-valued facts
		c04RegisterSets(c)
		// leg Bm (c03bm.go): the Boyer-Moore tables, Scan and IsMatch (a tenth of C03's cases)
		c03RegisterBm(c, 10)
		// leg L (c04loops.go): the proved validator for the landmark chain and the literal after the leading loop
		c04RegisterLoops(c, 1)
	})
}
