package legs

import (
	"encoding/hex"
	"errors"
	"fmt"
	"math/rand"
	"os"
	"sort"
	"strconv"
	"strings"

	"rvharness/internal/core"

	regexp2 "github.com/dlclark/regexp2/v2"
	"github.com/dlclark/regexp2/v2/syntax"
)

// Leg Pl — the COMPILER as one Lean function (lean/RegexVerif/Model/Reduce.lean:
// compilePattern = Writer.emit ∘ Reduce.reduceTree ∘ Parser.parse) against regexp2.Compile, stage by stage.
//
// For a pattern (leg Pr's and leg Wr's generators: full syntax, mutated patterns for the error paths, all
// option subsets):
//   (a) Lean reduceTree(parse(p)) == syntax.Parse(p).Root, EXACTLY (what the writer reads of every node, as leg
//       Wr serialises it; a set as its structural code), once with syntax.VerifDisableRewrites (the reductions
//       that always run: key Pl:reduce:<node>) and once as compiled (gated rewrites + finalOptimize: key
//       Pl:final:<node>);
//   (b) Lean compilePattern(p) == regexp2.VerifCode(regexp2.Compile(p)): Codes word for word, Strings, Sets,
//       TrackCount, Capsize, Caps, RightToLeft, CaptureSlotInUse, QuickCodes (key Pl:code:<part>), or the same
//       ErrorCode (key Pl:outcome).
// Unicode knowledge of the reducer (CharSet.CharIn, CharSet.MayOverlap, IsWordChar, IsECMAWordChar) travels as
// oracle rows computed by the real functions for every set and character of the three Go trees (raw, reduced
// without and with the rewrites).

type plCase struct {
	PatHex string `json:"pattern_hex"`
	Opts   int32  `json:"opts"`
	Order  bool   `json:"capture_order,omitempty"`
	Src    string `json:"src,omitempty"`
}

func plGen(rng *rand.Rand, i int) plCase {
	if i%2 == 0 {
		p := prGen(rng, i)
		return plCase{PatHex: p.PatHex, Opts: p.Opts, Order: p.Order, Src: "pr-" + p.Src}
	}
	w := wrGen(rng, i/2)
	return plCase{PatHex: hex.EncodeToString([]byte(w.Pattern)), Opts: w.Opts, Order: w.Order, Src: "wr-" + w.Source}
}

// plSetCode: the structural code of a set (Reduce.encodeSet): what mapHashFill writes, category ids for names.
func plSetCode(d *syntax.VerifCharSet, ids map[string]int) []int {
	var xs []int
	for ; d != nil; d = d.Sub {
		f := 0
		if d.Negate {
			f |= 1
		}
		if d.Anything {
			f |= 2
		}
		xs = append(xs, f, len(d.Ranges), len(d.Categories))
		for _, r := range d.Ranges {
			xs = append(xs, int(r[0]), int(r[1]))
		}
		for _, c := range d.Categories {
			id, ok := ids[c.Cat]
			if !ok {
				id = 999
			}
			n := 0
			if c.Negate {
				n = 1
			}
			xs = append(xs, id, n)
		}
	}
	return xs
}

type plCollect struct {
	ids   map[string]int
	sets  map[string]*syntax.CharSet // by code
	chars map[rune]bool
	seen  map[string]bool // node type names
}

// plNode: wrNode with sets as structural codes; collects sets, characters and node types.
func plNode(n *syntax.RegexNode, col *plCollect) string {
	rtl, ci := core.SBool(n.Options&syntax.RightToLeft != 0), core.SBool(n.Options&syntax.IgnoreCase != 0)
	if nm, ok := wrNodeNames[n.T]; ok && col.seen != nil {
		col.seen[nm] = true
	}
	set := func() string {
		code := core.SInts(plSetCode(n.Set.VerifDump(), col.ids))
		col.sets[code] = n.Set
		return code
	}
	if n.T == syntax.NtOne || n.T == syntax.NtNotone || n.IsOneloopFamily() || n.IsNotoneloopFamily() {
		col.chars[n.Ch] = true
	}
	if n.T == syntax.NtMulti && len(n.Str) > 0 {
		col.chars[n.Str[0]] = true
		col.chars[n.Str[len(n.Str)-1]] = true
	}
	kids := len(n.Children)
	sub := func(i int) string { return plNode(n.Children[i], col) }
	other := fmt.Sprintf("(other %d)", n.T)
	if kids == 0 {
		switch n.T {
		case syntax.NtEmpty:
			return "(empty)"
		case syntax.NtNothing, syntax.NtBol, syntax.NtEol, syntax.NtBoundary, syntax.NtNonboundary, syntax.NtECMABoundary, syntax.NtNonECMABoundary,
			syntax.NtBeginning, syntax.NtStart, syntax.NtEndZ, syntax.NtEnd, syntax.NtUpdateBumpalong:
			return fmt.Sprintf("(bare %d)", n.T)
		case syntax.NtOne, syntax.NtNotone:
			return fmt.Sprintf("(char %d %s %s %d)", n.T, rtl, ci, n.Ch)
		case syntax.NtSet:
			return fmt.Sprintf("(set %s %s %s)", rtl, ci, set())
		case syntax.NtMulti:
			return fmt.Sprintf("(multi %s %s %s)", rtl, ci, core.SInts(n.Str))
		case syntax.NtRef:
			return fmt.Sprintf("(ref %s %s %d)", rtl, ci, n.M)
		case syntax.NtOneloop, syntax.NtNotoneloop, syntax.NtOnelazy, syntax.NtNotonelazy, syntax.NtOneloopatomic, syntax.NtNotoneloopatomic:
			return fmt.Sprintf("(charloop %d %s %s %d %d %d)", n.T, rtl, ci, n.Ch, n.M, n.N)
		case syntax.NtSetloop, syntax.NtSetlazy, syntax.NtSetloopatomic:
			return fmt.Sprintf("(setloop %d %s %s %s %d %d)", n.T, rtl, ci, set(), n.M, n.N)
		case syntax.NtConcatenate:
			return "(concat)"
		case syntax.NtAlternate:
			return "(alt)"
		}
		return other
	}
	switch n.T {
	case syntax.NtConcatenate, syntax.NtAlternate:
		parts := make([]string, kids)
		for i := range parts {
			parts[i] = sub(i)
		}
		tag := "concat"
		if n.T == syntax.NtAlternate {
			tag = "alt"
		}
		return "(" + tag + " " + strings.Join(parts, " ") + ")"
	case syntax.NtLoop, syntax.NtLazyloop:
		if kids == 1 {
			return fmt.Sprintf("(loop %s %d %d %s)", core.SBool(n.T == syntax.NtLazyloop), n.M, n.N, sub(0))
		}
	case syntax.NtCapture:
		if kids == 1 {
			return fmt.Sprintf("(capture %d %d %s)", n.M, n.N, sub(0))
		}
	case syntax.NtGroup, syntax.NtPosLook, syntax.NtNegLook, syntax.NtAtomic:
		if kids == 1 {
			tag := map[syntax.NodeType]string{syntax.NtGroup: "group", syntax.NtPosLook: "poslook", syntax.NtNegLook: "neglook", syntax.NtAtomic: "atomic"}[n.T]
			return "(" + tag + " " + sub(0) + ")"
		}
	case syntax.NtBackRefCond:
		if kids == 1 {
			return fmt.Sprintf("(backrefcond %d %s)", n.M, sub(0))
		}
		if kids == 2 {
			return fmt.Sprintf("(backrefcond %d %s %s)", n.M, sub(0), sub(1))
		}
	case syntax.NtExprCond:
		if kids == 2 {
			return fmt.Sprintf("(exprcond %s %s)", sub(0), sub(1))
		}
		if kids == 3 {
			return fmt.Sprintf("(exprcond %s %s %s)", sub(0), sub(1), sub(2))
		}
	}
	return other
}

// plParts renders syntax.Code in the order of the driver's (prog …) answer, sets as structural codes.
func plParts(code *syntax.Code, ids map[string]int) []string {
	strs := make([]string, len(code.Strings))
	for i, s := range code.Strings {
		strs[i] = core.SInts(s)
	}
	sets := make([]string, len(code.Sets))
	for i, s := range code.Sets {
		sets[i] = core.SInts(plSetCode(s.VerifDump(), ids))
	}
	inuse := make([]string, len(code.CaptureSlotInUse))
	for i, b := range code.CaptureSlotInUse {
		inuse[i] = core.SBool(b)
	}
	quick := "(noquick)"
	if code.QuickCodes != nil {
		quick = "(quick " + strings.Trim(core.SInts(code.QuickCodes), "()") + ")"
	}
	caps := "()"
	if code.Caps != nil {
		caps = wrPairs(code.Caps)
	}
	return []string{core.SInts(code.Codes), "(" + strings.Join(strs, " ") + ")", "(" + strings.Join(sets, " ") + ")",
		fmt.Sprint(code.TrackCount), fmt.Sprint(code.Capsize), caps, core.SBool(code.RightToLeft),
		"(" + strings.Join(inuse, " ") + ")", quick}
}

// plOracleRows: CharIn / MayOverlap / IsWordChar / IsECMAWordChar for every collected set and character.
func plOracleRows(col *plCollect) string {
	col.chars['\n'] = true
	var codes []string
	for c := range col.sets {
		codes = append(codes, c)
	}
	sort.Strings(codes)
	var chars []rune
	for r := range col.chars {
		chars = append(chars, r)
	}
	sort.Slice(chars, func(a, b int) bool { return chars[a] < chars[b] })
	var in, ov []string
	for _, c := range codes {
		s := col.sets[c]
		var m []rune
		for _, r := range chars {
			if s.CharIn(r) {
				m = append(m, r)
			}
		}
		in = append(in, "("+c+" "+strings.Trim(core.SInts(m), "()")+")")
		var o []string
		for _, d := range codes {
			if s.MayOverlap(col.sets[d]) {
				o = append(o, d)
			}
		}
		ov = append(ov, "("+c+" "+strings.Join(o, " ")+")")
	}
	var w, ew []rune
	for _, r := range chars {
		if syntax.IsWordChar(r) {
			w = append(w, r)
		}
		if syntax.IsECMAWordChar(r) {
			ew = append(ew, r)
		}
	}
	rows := []string{core.S("sets", codes...), core.S("chars", strings.Trim(core.SInts(chars), "()")), core.S("in", in...), core.S("ov", ov...),
		core.S("pword", strings.Trim(core.SInts(w), "()")), core.S("peword", strings.Trim(core.SInts(ew), "()"))}
	return strings.ReplaceAll(strings.Join(rows, " "), " )", ")")
}

type plGo struct {
	errCode  string // "" when the pattern parses
	off, on  string
	info     string
	parts    []string
	writeErr bool
	panic_   string
	rows     string
	ids      map[string]int
	seen     map[string]bool
}

func plParseOff(pat string, po syntax.ParseOptions) (*syntax.RegexTree, error) {
	save := syntax.VerifDisableRewrites
	syntax.VerifDisableRewrites = true
	defer func() { syntax.VerifDisableRewrites = save }()
	return syntax.Parse(pat, po)
}

func plRunGo(pat string, cs plCase, ids map[string]int) (g plGo) {
	g.ids = ids
	defer func() {
		if r := recover(); r != nil {
			g.panic_ = fmt.Sprint(r)
		}
	}()
	po := syntax.ParseOptions{RegexOptions: syntax.RegexOptions(cs.Opts), MaintainCaptureOrder: cs.Order}
	col := &plCollect{ids: ids, sets: map[string]*syntax.CharSet{}, chars: map[rune]bool{}}
	raw, err := syntax.VerifParseRaw(pat, po)
	if err != nil {
		var pe *syntax.Error
		if errors.As(err, &pe) {
			g.errCode = prErrNames[pe.Code]
		}
		if g.errCode == "" {
			g.errCode = "unknown"
		}
		g.rows = plOracleRows(col)
		return g
	}
	plNode(raw.Root, col)
	off, err1 := plParseOff(pat, po)
	on, err2 := syntax.Parse(pat, po)
	if err1 != nil || err2 != nil {
		g.panic_ = fmt.Sprintf("VerifParseRaw succeeds, Parse fails: %v / %v", err1, err2)
		return g
	}
	g.off = plNode(off.Root, col)
	col.seen = map[string]bool{}
	g.on = plNode(on.Root, col)
	g.seen = col.seen
	g.info = wrInfo(on)
	g.rows = plOracleRows(col)
	opts := []regexp2.CompileOption{regexp2.RegexOptions(cs.Opts)}
	if cs.Order {
		opts = append(opts, regexp2.OptionMaintainCaptureOrder())
	}
	re, cerr := regexp2.Compile(pat, opts...)
	if cerr != nil {
		g.writeErr = true
		return g
	}
	g.parts = plParts(regexp2.VerifCode(re), ids)
	return g
}

// the tag (and numeric node type) of the innermost node that contains the first difference
func plDiffNode(lean, goAns string) string {
	i := 0
	for i < len(lean) && i < len(goAns) && lean[i] == goAns[i] {
		i++
	}
	if i >= len(goAns) {
		i = len(goAns) - 1
	}
	// walk back to the "(tag" that opens a node: tags are alphabetic
	for j := i; j >= 0; j-- {
		if goAns[j] == '(' && j+1 < len(goAns) && goAns[j+1] >= 'a' && goAns[j+1] <= 'z' {
			f := strings.Fields(strings.NewReplacer("(", " ", ")", " ").Replace(goAns[j+1 : min(len(goAns), j+40)]))
			if len(f) == 0 {
				break
			}
			switch f[0] {
			case "bare", "char", "charloop", "setloop":
				if len(f) > 1 {
					if t, err := strconv.Atoi(f[1]); err == nil {
						if nm, ok := wrNodeNames[syntax.NodeType(t)]; ok {
							return nm
						}
					}
				}
			}
			return f[0]
		}
	}
	return "tree"
}

func plField(items []string, tag string) (string, bool) {
	for _, it := range items {
		if strings.HasPrefix(it, "("+tag+" ") || it == "("+tag+")" {
			return strings.TrimSuffix(strings.TrimPrefix(it, "("+tag), ")"), true
		}
	}
	return "", false
}

func plCheck(c *core.Ctx, cases []plCase) []core.Outcome {
	outs := make([]core.Outcome, len(cases))
	gos := make([]plGo, len(cases))
	pats := make([][]rune, len(cases))
	fullSent := make([]bool, len(cases))
	lines := make([]string, len(cases))
	mkLine := func(i int, full bool) string {
		line, _ := prRequest(pats[i], cases[i].Opts, cases[i].Order, full)
		line = "(c01 pipeline " + strings.TrimPrefix(line, "(c18 parser ")
		return strings.TrimSuffix(line, ")") + " " + gos[i].rows + ")"
	}
	for i, cs := range cases {
		pat := unhex(cs.PatHex)
		pats[i] = []rune(pat)
		o := &outs[i]
		o.Key = cs.PatHex + "/" + strconv.Itoa(int(cs.Opts)) + core.SBool(cs.Order)
		o.Buckets = append(o.Buckets, "src="+cs.Src, wrOptsBucket(cs.Opts))
		ro := syntax.RegexOptions(cs.Opts)
		fullSent[i] = ro&(syntax.ECMAScript|syntax.RE2) != 0 && (ro&syntax.IgnoreCase != 0 || strings.ContainsAny(pat, "iI"))
		_, ids := prRequest(pats[i], cs.Opts, cs.Order, false)
		gos[i] = plRunGo(pat, cs, ids)
		g := &gos[i]
		if g.panic_ != "" {
			o.Fail = &core.Failure{Kind: "impl-violation", Key: "Pl:panic", Summary: "the compiler panicked (or Parse and VerifParseRaw disagree) on pattern " + strconv.Quote(pat) + " options " + strconv.Itoa(int(cs.Opts)), Expected: "a program or a parse error", Got: g.panic_}
		}
		if g.errCode != "" {
			o.Buckets = append(o.Buckets, "err-"+g.errCode)
		} else {
			o.Nontrivial = len(g.seen) > 2
			for nm := range g.seen {
				o.Buckets = append(o.Buckets, "nt="+nm)
			}
			if g.off != g.on {
				o.Buckets = append(o.Buckets, "rewrites-change-the-tree")
			}
		}
		lines[i] = mkLine(i, fullSent[i])
	}
	res, err := c.RunDriver(lines)
	if err != nil {
		for i := range outs {
			if outs[i].Fail == nil {
				outs[i].Fail = core.DriverFailure(err)
				break
			}
		}
		return outs
	}
	if f := os.Getenv("PL_DUMP"); f != "" {
		var sb strings.Builder
		for i := range lines {
			fmt.Fprintf(&sb, "%s\n=> %s\nGO off %s\nGO on  %s\n\n", lines[i], res[i], gos[i].off, gos[i].on)
		}
		_ = os.WriteFile(f, []byte(sb.String()), 0o644)
	}
	agrees := func(i int) bool { return plCompare(&cases[i], string(pats[i]), &gos[i], res[i], nil) == nil }
	var retry []int
	var rlines []string
	for i := range cases {
		if outs[i].Fail == nil && !fullSent[i] && !agrees(i) {
			retry = append(retry, i)
			rlines = append(rlines, mkLine(i, true))
		}
	}
	if len(retry) > 0 {
		if rres, err := c.RunDriver(rlines); err == nil {
			for k, i := range retry {
				res[i] = rres[k]
				outs[i].Buckets = append(outs[i].Buckets, "full-case-tables-needed")
			}
		}
	}
	for i := range cases {
		if outs[i].Fail != nil {
			continue
		}
		outs[i].Fail = plCompare(&cases[i], string(pats[i]), &gos[i], res[i], &outs[i])
	}
	return outs
}

var plPartNames = []string{"codes", "strings", "sets", "trackcount", "capsize", "caps", "rtl", "slot-in-use", "quick"}

// plCompare: nil when the Lean answer agrees with the Go side; o (may be nil) receives histogram buckets.
func plCompare(cs *plCase, pat string, g *plGo, lean string, o *core.Outcome) *core.Failure {
	bucket := func(b string) {
		if o != nil {
			o.Buckets = append(o.Buckets, b)
		}
	}
	clip := func(s string) string {
		if len(s) > 3000 {
			return s[:3000] + "…"
		}
		return s
	}
	bad := func(key, sum, exp, got string) *core.Failure {
		return &core.Failure{Kind: "correspondence-break", Key: key,
			Summary: fmt.Sprintf("%s: pattern %q options %d capture-order %v", sum, pat, cs.Opts, cs.Order), Expected: clip(exp), Got: clip(got)}
	}
	if g.errCode != "" {
		if lean != "(error "+g.errCode+")" {
			return bad("Pl:outcome", "Lean compilePattern and regexp2.Compile end differently", lean, "(error "+g.errCode+")")
		}
		return nil
	}
	tag, items := wrSplit(lean)
	if tag != "ok" && tag != "write-error" {
		return bad("Pl:outcome", "Lean compilePattern does not produce a program where regexp2.Compile does", lean, "(ok …)")
	}
	off, _ := plField(items, "off")
	on, _ := plField(items, "on")
	off, on = strings.TrimSpace(off), strings.TrimSpace(on)
	sentinel := strings.Contains(off+on, " (1 0 0)")
	miss, _ := plField(items, "miss")
	if strings.TrimSpace(miss) == "1" {
		bucket("oracle-question-outside-the-rows")
	}
	if fired, ok := plField(items, "fired"); ok {
		seen := map[string]bool{}
		for _, f := range strings.Fields(fired) {
			if !seen[f] {
				seen[f] = true
				bucket("fired=" + f)
			}
		}
	}
	if off != g.off {
		if sentinel {
			bucket("residue:canonicalize-third-normal-form")
			return nil
		}
		return bad("Pl:reduce:"+plDiffNode(off, g.off), "stage (a), rewrites disabled: Lean reduceTree(parse p) differs from syntax.Parse(p).Root", off, g.off)
	}
	if on != g.on {
		if sentinel {
			bucket("residue:canonicalize-third-normal-form")
			return nil
		}
		return bad("Pl:final:"+plDiffNode(on, g.on), "stage (a), rewrites enabled: Lean reduceTree(parse p) differs from syntax.Parse(p).Root", on, g.on)
	}
	if tag == "write-error" || g.writeErr {
		if tag == "write-error" && g.writeErr {
			bucket("write-error")
			return nil
		}
		return bad("Pl:outcome", "the writer reports an error on one side only", lean[:min(len(lean), 60)], fmt.Sprintf("go write error: %v", g.writeErr))
	}
	info, _ := plField(items, "info")
	if "(info"+info+")" != g.info {
		// Caps values before Write are pattern positions the writer overwrites; compare the rest
		li, gi := wrSplitItems("(info"+info+")"), wrSplitItems(g.info)
		if len(li) != 4 || len(gi) != 4 || li[0] != gi[0] || li[1] != gi[1] || li[3] != gi[3] || plKeys(li[2]) != plKeys(gi[2]) {
			return bad("Pl:info", "the tree-level information the writer reads (Captop, Capnumlist, Caps keys, RightToLeft) differs", "(info"+info+")", g.info)
		}
	}
	prog, _ := plField(items, "prog")
	parts := wrSplitItems("(prog" + prog + ")")
	if len(parts) != len(plPartNames) {
		return bad("Pl:code", "malformed (prog …) answer", lean, "")
	}
	for k, name := range plPartNames {
		if parts[k] != g.parts[k] {
			return bad("Pl:code:"+name, "stage (b): Lean compilePattern and regexp2.VerifCode(Compile(p)) differ in "+name, parts[k], g.parts[k])
		}
	}
	wf, _ := plField(items, "wf")
	if strings.TrimSpace(wf) != "1 1 1 1 1" {
		return bad("Pl:wf", "treeWf of the reduced tree / wfProg of the compiled programs / okN of the raw tree (hypothesis of Props.C01.reduceTree_wf_partial) / RawShapeOk and PrescanAgrees of the parse result (hypotheses of Props.C10.compile_and_run_no_fault_partial) does not hold", "(wf 1 1 1 1 1)", "(wf"+wf+")")
	}
	return nil
}

func wrSplitItems(s string) []string {
	_, items := wrSplit(s)
	return items
}

// the keys of a ((k v) …) list
func plKeys(s string) string {
	var ks []string
	for _, it := range wrSplitItems("(x " + strings.TrimSuffix(strings.TrimPrefix(strings.TrimSpace(s), "("), ")") + ")") {
		f := strings.Fields(strings.Trim(it, "()"))
		if len(f) > 0 {
			ks = append(ks, f[0])
		}
	}
	return strings.Join(ks, ",")
}

var plCorpus = func() []plCase {
	mk := func(p string, o regexp2.RegexOptions) plCase {
		return plCase{PatHex: hex.EncodeToString([]byte(p)), Opts: int32(o), Src: "corpus"}
	}
	var out []plCase
	for _, p := range []string{
		`abc`, `a|b|c|def|g|h`, `apple|(?:orange|pear)|grape`, `abc|ade`, `\w12|\d34|\d56|\w78|\w90`, `(?>hi|there|hello)`, `(?>(?>(?>a*)))`, `(?>(abc*)*)`,
		`a*a*a*`, `a+ab`, `(?:abc)(?:def)`, `(?:a{2,4}){1,2}`, `(?:(?>a+)){2}`, `(?:a*)+`, `(?:a+)*`, `(?:a{2,})?`, `(?:a{100,105}){3}`, `(?:a{2,}){2147483647}`, `(?:a+?)+?`, `(?:a+?)+`,
		`(?:(?:ab)*)+`, `(?:(?:a{2,})*)+`, `(?:(?:\d{3,})*){2}`, `x((?:(?:a{2,})*)+)y`, `(?:(?:(?:a{2})+)?){2,}`, `(?:(?:a{2,}?)*?)+?`, `(?:(?:[ab]{2,})*){1,3}`, `(?:[ab])*`, `(?:[^a])+?`, `(?:a){2,3}`, `(?:){3}`, `()*`, `(?=)`, `(?!)`, `(?<=)a`, `a(?!)|b`, `(?(1)a)(b)`, `(?(?=a)b)`, `(?(?=a)b|c)`, `(?(?<=a)b|c)`, `(?(a+)b|c)`,
		`(?i)a1|b`, `(?i)ab*`, `[a]`, `[^a]+`, `a*b`, `a*?b`, `a*b*c*`, `\w+\b`, `\w+@dot\.net`, `(?:ab*)*c`, `[xyz](?:abc|def)`, `abc*|def*`, `(?:abc*)*`, `(abc*?)+?`,
		`a+(?s).`, `a*(?m)$`, `(a*)+b`, `(?<=a*b)c`, `x(?<=(?:a*ba){2})c`, `a*(?:b|c)`, `a*(?(?=x)y|z)`, `(?>a+?)b`, `(?>a{3}?)`, `(?>|a|b)`, `(?>a||b)`, `a||c`, `x||-||b`,
		`[ab][bc]x|[ab](?:b|c)y`, `a{2}?$b*|aab`, `\d+ca*|b|`, `.*x`, `(?>.*?)x`, `(?>.*)x`, `(?:.*)?x`, `^.*$`, `(a|ab)(c|bcd)(d*)`, `\p{L}+\P{L}`, `[\w-[a]]+b`, `\s+\d`, `\s*\w`,
	} {
		out = append(out, mk(p, 0), mk(p, regexp2.RightToLeft), mk(p, regexp2.IgnoreCase), mk(p, regexp2.ECMAScript), mk(p, regexp2.RE2|regexp2.Multiline))
	}
	return out
}()

func plLeg(c *core.Ctx, quick, thorough int) {
	core.RunLeg(c, core.Leg[plCase]{
		Name: "Pl", Kind: "correspondence", Batch: 300,
		Rule:   "patterns: leg Pr's generator (printed random full-syntax ASTs, their mutations, harvested literals, metacharacter and snippet concatenations for every parser branch and ErrorCode; options: the generator's own or a random subset of the 9 bits; MaintainCaptureOrder in a fifth) alternating with leg Wr's (quantifier shape grammar, towers, fragment and full ASTs; 15 option sets), after a corpus of ~75 reducer shapes under 5 option sets. Compared, stage by stage: (a) Lean Reduce.reduceTree(Parser.parse p) == syntax.Parse(p).Root exactly (node type, RightToLeft/IgnoreCase bits, Ch, Str, set by structure, M, N, children), with syntax.VerifDisableRewrites (key Pl:reduce:<node>) and without (Pl:final:<node>); (b) Lean compilePattern p == regexp2.VerifCode(regexp2.Compile p): Codes, Strings, Sets, TrackCount, Capsize, Caps, RightToLeft, CaptureSlotInUse, QuickCodes (Pl:code:<part>), or the same ErrorCode (Pl:outcome); treeWf of the reduced tree, wfProg of both programs, okN of the raw tree — the hypothesis of Props.C01.reduceTree_wf_partial — and RawShapeOk / PrescanAgrees of the parse result — the hypotheses of Props.C10.compile_and_run_no_fault_partial — (Pl:wf). Oracle rows: CharIn / MayOverlap / IsWordChar / IsECMAWordChar from the real functions for the sets and characters of the three Go trees. Residue bucket (no tolerance elsewhere): the Lean tree contains the sentinel class of canonicalize's third normal form. non-trivial = more than two node types in the reduced tree; distinct by (pattern, options)",
		Corpus: plCorpus, N: c.N(quick, thorough), Gen: plGen, Check: plCheck,
	})
}

// development aid: `rv run PIPELINE` runs leg Pl alone (registered under C01, C05, C10)
func init() {
	core.Register("PIPELINE", func(c *core.Ctx) { plLeg(c, 1500, 60000) })
}
