package legs

import (
	"encoding/hex"
	"fmt"
	"math/rand"
	"strings"
	"time"
	"unicode/utf8"

	"rvharness/internal/core"

	regexp2 "github.com/dlclark/regexp2/v2"
	"github.com/dlclark/regexp2/v2/compat"
)

// C08 — Returned matches are well-formed and index conversion is exact.
//
// Leg M: the five rune-index → byte-index tables and the byte → rune start lookup, observed through
//        the public API on strings mixing 1–4 byte runes, literal U+FFFD and invalid bytes, compared
//        with (a) an independent recomputation with unicode/utf8 and (b) the Lean model.
// Leg P: model-free oracle on real matches of random patterns (captures, nesting, loops,
//        look-behind, balancing groups) through the string, rune, find-all and adapter entry points.
// Leg B: straight-line capture programs — patterns whose sequence of Capture / transferCapture /
//        uncapture calls is known by construction — run by the real interpreter; the capture arrays
//        after tidy and Groups() are compared with the Lean builder model and with the abstract
//        stack semantics.

// ---------------------------------------------------------------------------------------------
// shared helpers

// c08Decode splits s the way `for range s` does; offs[k] is the byte offset of rune k (n+1 entries).
func c08Decode(s string) (rs []rune, ws []int, offs []int) {
	offs = []int{0}
	for i := 0; i < len(s); {
		r, w := utf8.DecodeRuneInString(s[i:])
		rs = append(rs, r)
		ws = append(ws, w)
		i += w
		offs = append(offs, i)
	}
	return
}

var c08Pieces = []string{
	"a", "b", "x", "a", "b", "x", "\n", "é", "ß", "€", "中", "�", "😀", "𝄞",
	"\xff", "\x80", "\xc3", "\xe2\x82", "\xf0\x9f\x98", "\xed\xa0\x80", "\xc0\xaf", "\xf4\x90\x80\x80",
}

func c08Input(rng *rand.Rand, maxPieces int) string {
	n := rng.Intn(maxPieces + 1)
	var sb strings.Builder
	switch rng.Intn(8) {
	case 0: // ASCII only: nil tables
		for i := 0; i < n; i++ {
			sb.WriteString(c08Pieces[rng.Intn(3)])
		}
	case 1: // ASCII then one wide or invalid piece last (the trigger fires on the last rune only)
		for i := 0; i < n; i++ {
			sb.WriteString(c08Pieces[rng.Intn(3)])
		}
		sb.WriteString(c08Pieces[7+rng.Intn(len(c08Pieces)-7)])
	default:
		for i := 0; i < n; i++ {
			sb.WriteString(c08Pieces[rng.Intn(len(c08Pieces))])
		}
	}
	return sb.String()
}

func c08Ints(tag string, xs []int) string {
	if len(xs) == 0 {
		return core.S(tag)
	}
	return core.S(tag, strings.Trim(core.SInts(xs), "()"))
}

func c08SafeCall(f func()) (panicked string) {
	defer func() {
		if e := recover(); e != nil {
			panicked = fmt.Sprint(e)
		}
	}()
	f()
	return ""
}

var (
	c08Empty       = regexp2.MustCompile(``)
	c08EmptyCompat = compat.Wrap(regexp2.MustCompile(``))
	c08Readers     = map[int]*compat.Regexp{}
	c08SpanRes     = map[[2]int]*regexp2.Regexp{}
)

func c08ReaderRe(n int) *compat.Regexp {
	if re, ok := c08Readers[n]; ok {
		return re
	}
	re := compat.MustCompile(`(?s)\A` + strings.Repeat(`(.)`, n))
	c08Readers[n] = re
	return re
}

func c08SpanRe(i, l int) *regexp2.Regexp {
	k := [2]int{i, l}
	if re, ok := c08SpanRes[k]; ok {
		return re
	}
	re := regexp2.MustCompile(fmt.Sprintf(`(?s)\A.{%d}(.{%d})`, i, l))
	c08SpanRes[k] = re
	return re
}

// ---------------------------------------------------------------------------------------------
// Leg M

type c08MapCase struct {
	Hex   string   `json:"hex"`             // the input string, hex encoded (it may be invalid UTF-8)
	Runes []int32  `json:"runes,omitempty"` // rune-slice input for the rune entry point (nil: []rune(string))
	Spans [][2]int `json:"spans,omitempty"` // rune spans (index, length) inside the string
}

func c08MapGen(rng *rand.Rand, i int) c08MapCase {
	maxp := 9
	if i%10 == 7 {
		maxp = 40 // long tables: deeper binary search in byteIndex
	}
	s := c08Input(rng, maxp)
	cs := c08MapCase{Hex: hex.EncodeToString([]byte(s))}
	n := utf8.RuneCountInString(s)
	if i%5 == 4 {
		// a rune slice that did not come from a string: surrogates, negative values, values above MaxRune
		weird := []int32{0xD800, 0xDFFF, -1, -77, 0x110000, 0x7fffffff, 0xFFFD, 0, 0x7f, 0x80, 0x7ff, 0x800, 0xffff, 0x10000, 0x10ffff, 'a'}
		m := rng.Intn(8)
		cs.Runes = make([]int32, m)
		for j := range cs.Runes {
			cs.Runes[j] = weird[rng.Intn(len(weird))]
		}
		return cs
	}
	for k := rng.Intn(4); k > 0; k-- {
		a := rng.Intn(n + 1)
		cs.Spans = append(cs.Spans, [2]int{a, rng.Intn(n - a + 1)})
	}
	return cs
}

func c08MapCheck(c *core.Ctx, cases []c08MapCase) []core.Outcome {
	outs := make([]core.Outcome, len(cases))
	lines := make([]string, len(cases))
	goAns := make([]string, len(cases))
	for ci, cs := range cases {
		o := &outs[ci]
		raw, _ := hex.DecodeString(cs.Hex)
		s := string(raw)
		rs, ws, offs := c08Decode(s)
		n := len(rs)
		o.Key = cs.Hex + fmt.Sprint(cs.Runes)
		wide, invalid := false, false
		for k, r := range rs {
			if ws[k] > 1 {
				wide = true
			}
			if r == utf8.RuneError && ws[k] == 1 {
				invalid = true
			}
		}
		o.Nontrivial = wide || invalid || cs.Runes != nil
		switch {
		case cs.Runes != nil:
			o.Buckets = append(o.Buckets, "rune-slice-input")
		case invalid:
			o.Buckets = append(o.Buckets, "string-with-invalid-bytes")
		case wide:
			o.Buckets = append(o.Buckets, "string-valid-multibyte")
		default:
			o.Buckets = append(o.Buckets, "string-ascii(nil-table)")
		}
		runeIn := cs.Runes
		if runeIn == nil {
			runeIn = rs
		}
		// protocol line
		var segS []string
		for k := range rs {
			segS = append(segS, fmt.Sprintf("(%d %d)", rs[k], ws[k]))
		}
		var spanS []string
		for _, sp := range cs.Spans {
			spanS = append(spanS, fmt.Sprintf("(%d %d)", sp[0], sp[1]))
		}
		lines[ci] = core.S("c08", "map", core.S("segs", segS...), c08Ints("runes", toInts(runeIn)), core.S("spans", spanS...))

		// observations through the API --------------------------------------------------------
		var sbo, nsbm, btr, rr, rbo, rstart, rstart2, rlen []int
		var spans, rspans []string
		fail := func(key, sum, exp, got string) {
			if o.Fail == nil {
				o.Fail = &core.Failure{Kind: "impl-violation", Key: key, Summary: sum, Expected: exp, Got: got}
			}
		}
		p := c08SafeCall(func() {
			// stringByteOffsets through Capture.ByteRange of the empty matches at every rune position
			m, err := c08Empty.FindStringMatch(s)
			for ; m != nil && err == nil; m, err = c08Empty.FindNextMatch(m) {
				bi, bl := m.ByteRange()
				if m.RuneIndex != len(sbo) || bl != 0 {
					fail("mapper:iteration", "empty pattern did not match once at every rune position", fmt.Sprint(len(sbo)), fmt.Sprint(m.RuneIndex, bl))
				}
				sbo = append(sbo, bi)
			}
			// newStringByteMapper/byteIndex through FindAllStringIndex
			locs, _ := c08Empty.FindAllStringIndex(s, -1)
			for _, l := range locs {
				if l[0] != l[1] {
					fail("mapper:iteration", "FindAllStringIndex of the empty pattern gave a non-empty match", "", fmt.Sprint(l))
				}
				nsbm = append(nsbm, l[0])
			}
			// compat bytesToRunesAndOffsets through FindAllIndex
			for _, l := range c08EmptyCompat.FindAllIndex([]byte(s), -1) {
				btr = append(btr, l[0])
			}
			// compat readRunes through FindReaderSubmatchIndex with one group per rune
			res := c08ReaderRe(n).FindReaderSubmatchIndex(strings.NewReader(s))
			if len(res) != 2*(n+1) {
				fail("mapper:reader", "FindReaderSubmatchIndex: one-group-per-rune pattern did not match", fmt.Sprint(2*(n+1)), fmt.Sprint(res))
			} else {
				for k := 0; k < n; k++ {
					rr = append(rr, res[2+2*k])
					if k+1 < n && res[3+2*k] != res[4+2*k] {
						fail("mapper:reader", "FindReaderSubmatchIndex: adjacent groups do not share a boundary", "", fmt.Sprint(res))
					}
				}
				rr = append(rr, res[1])
				if n > 0 && res[1] != res[2*n+1] {
					fail("mapper:reader", "FindReaderSubmatchIndex: last group does not end at the match end", "", fmt.Sprint(res))
				}
			}
			// runeByteOffsets through ByteRange on rune input
			m, err = c08Empty.FindRunesMatch(runeIn)
			for ; m != nil && err == nil; m, err = c08Empty.FindNextMatch(m) {
				bi, _ := m.ByteRange()
				rbo = append(rbo, bi)
			}
			for _, r := range runeIn {
				rlen = append(rlen, utf8.RuneLen(r))
			}
			// byte → rune start: getRunesAndStart (FindStringMatchStartingAt) and decodeStringWithStart (Replace)
			for b := 0; b <= len(s); b++ {
				m, err := c08Empty.FindStringMatchStartingAt(s, b)
				if err != nil || m == nil {
					rstart = append(rstart, -1)
				} else {
					rstart = append(rstart, m.RuneIndex)
				}
				out, err := c08Empty.Replace(s, "", b, 1)
				if err != nil {
					rstart2 = append(rstart2, -1)
				} else {
					rstart2 = append(rstart2, utf8.RuneCountInString(out[:strings.Index(out, "")]))
				}
			}
			for _, sp := range cs.Spans {
				re := c08SpanRe(sp[0], sp[1])
				if m, _ := re.FindStringMatch(s); m != nil {
					bi, bl := m.GroupByNumber(1).ByteRange()
					spans = append(spans, fmt.Sprintf("(%d %d)", bi, bl))
				} else {
					spans = append(spans, "(nomatch)")
				}
				if m, _ := re.FindRunesMatch(runeIn); m != nil {
					bi, bl := m.GroupByNumber(1).ByteRange()
					rspans = append(rspans, fmt.Sprintf("(%d %d)", bi, bl))
				} else {
					rspans = append(rspans, "(nomatch)")
				}
			}
		})
		if p != "" {
			fail("panic:mapper", "panic while reading byte indexes: "+p, "no panic", p)
			continue
		}
		goAns[ci] = core.S("ok", c08Ints("sbo", sbo), c08Ints("nsbm", nsbm), c08Ints("btr", btr),
			core.S("btrrunes", core.SInts(rs)), core.S("rr", core.SInts(rr)), c08Ints("rbo", rbo), c08Ints("rlen", rlen),
			c08Ints("rs", rstart), core.S("spans", spans...), c08Ints("rs2", rstart2), core.S("rspans", rspans...))

		// model-free oracle: recomputation with unicode/utf8 -------------------------------------
		eq := func(a, b []int) bool { return fmt.Sprint(a) == fmt.Sprint(b) }
		for _, t := range []struct {
			name string
			got  []int
		}{{"stringByteOffsets(ByteRange)", sbo}, {"stringByteMapper(FindAllStringIndex)", nsbm}, {"bytesToRunesAndOffsets(compat.FindAllIndex)", btr}, {"readRunes(compat.FindReaderSubmatchIndex)", rr}} {
			if !eq(t.got, offs) {
				fail("mapper:"+strings.SplitN(t.name, "(", 2)[0], t.name+" disagrees with the UTF-8 byte offsets of the runes of the input", fmt.Sprint(offs), fmt.Sprint(t.got))
			}
		}
		var roffs []int
		for k := 0; k <= len(runeIn); k++ {
			roffs = append(roffs, len(string(runeIn[:k])))
		}
		if !eq(rbo, roffs) {
			fail("mapper:runeByteOffsets", "ByteRange on rune input disagrees with the UTF-8 encoding of the rune slice", fmt.Sprint(roffs), fmt.Sprint(rbo))
		}
		inv := make([]int, len(s)+1)
		for b := range inv {
			inv[b] = -1
		}
		for k, off := range offs {
			inv[off] = k
		}
		if !eq(rstart, inv) || !eq(rstart2, inv) {
			fail("mapper:runeStart", "byte start offset → rune index lookup disagrees with the rune boundaries", fmt.Sprint(inv), fmt.Sprint(rstart, rstart2))
		}
		for k, sp := range cs.Spans {
			want := fmt.Sprintf("(%d %d)", offs[sp[0]], offs[sp[0]+sp[1]]-offs[sp[0]])
			if spans[k] != want {
				fail("mapper:byteRange", fmt.Sprintf("ByteRange of rune span %v of the string", sp), want, spans[k])
			}
			if cs.Runes == nil {
				want = fmt.Sprintf("(%d %d)", roffs[sp[0]], roffs[sp[0]+sp[1]]-roffs[sp[0]])
				if rspans[k] != want {
					fail("mapper:byteRange-runes", fmt.Sprintf("ByteRange of rune span %v of the rune slice", sp), want, rspans[k])
				}
			}
		}
	}
	res, err := c.RunDriver(lines)
	if err != nil {
		for i := range outs {
			if outs[i].Fail == nil {
				outs[i].Fail = core.DriverFailure(err)
				break
			}
		}
		return outs
	}
	for i := range cases {
		if outs[i].Fail != nil {
			continue
		}
		if res[i] != goAns[i] {
			outs[i].Fail = &core.Failure{Kind: "correspondence-break", Key: "model:" + c08DiffTag(res[i], goAns[i]),
				Summary: "Lean model of the byte-offset tables disagrees with the values observed through the API (first differing table: " + c08DiffTag(res[i], goAns[i]) + ")", Expected: res[i], Got: goAns[i]}
		}
	}
	return outs
}

func toInts(rs []int32) []int {
	out := make([]int, len(rs))
	for i, r := range rs {
		out[i] = int(r)
	}
	return out
}

// c08DiffTag names the first top-level (tag …) group in which two answer lines differ.
func c08DiffTag(a, b string) string {
	pa, pb := c08TopGroups(a), c08TopGroups(b)
	for i := 0; i < len(pa) && i < len(pb); i++ {
		if pa[i] != pb[i] {
			return strings.SplitN(strings.TrimPrefix(pa[i], "("), " ", 2)[0]
		}
	}
	return "shape"
}

func c08TopGroups(s string) []string {
	var out []string
	depth, start := 0, -1
	for i, ch := range s {
		switch ch {
		case '(':
			depth++
			if depth == 2 {
				start = i
			}
		case ')':
			if depth == 2 && start >= 0 {
				out = append(out, s[start:i+1])
				start = -1
			}
			depth--
		}
	}
	return out
}

// ---------------------------------------------------------------------------------------------
// Leg P: random patterns, model-free oracle

type c08PatCase struct {
	Pattern string `json:"pattern"`
	Opts    int    `json:"opts"`
	Hex     string `json:"hex"`
}

type c08PatGen struct {
	rng     *rand.Rand
	defined map[string]bool
	used    map[string]bool
}

var c08Lits = []string{"a", "b", "x", "a", "b", "x", "é", "€", "😀", `�`, ".", ".", `[ab€]`, `\w`, `[^a]`, `\n`}
var c08Names = []string{"a", "b", "c"}

func (g *c08PatGen) name() string { return c08Names[g.rng.Intn(len(c08Names))] }

func (g *c08PatGen) node(d int) string {
	r := g.rng
	if d <= 0 {
		return c08Lits[r.Intn(len(c08Lits))]
	}
	switch k := r.Intn(40); {
	case k < 7:
		return c08Lits[r.Intn(len(c08Lits))]
	case k < 13:
		return g.node(d-1) + g.node(d-1)
	case k < 15:
		return g.node(d-1) + g.node(d-1) + g.node(d-1)
	case k < 18:
		return "(?:" + g.node(d-1) + "|" + g.node(d-1) + ")"
	case k < 22:
		return "(" + g.node(d-1) + ")"
	case k < 26:
		n := g.name()
		g.defined[n] = true
		return "(?<" + n + ">" + g.node(d-1) + ")"
	case k < 30:
		q := []string{"*", "+", "?", "{2}", "{1,3}", "*?", "+?", "??", "{0,2}?"}[r.Intn(9)]
		return "(?:" + g.node(d-1) + ")" + q
	case k < 31:
		return "(?=" + g.node(d-1) + ")"
	case k < 32:
		return "(?!" + g.node(d-1) + ")"
	case k < 34:
		return "(?<=" + g.node(d-1) + ")"
	case k < 35:
		return "(?<!" + g.node(d-1) + ")"
	case k < 36:
		n := g.name()
		g.used[n] = true
		return "(?<-" + n + ">" + g.node(d-1) + ")"
	case k < 37:
		n, m := g.name(), g.name()
		g.used[m] = true
		g.defined[n] = true
		return "(?<" + n + "-" + m + ">" + g.node(d-1) + ")"
	case k < 38:
		if r.Intn(2) == 0 {
			n := g.name()
			g.used[n] = true
			return `\k<` + n + ">"
		}
		return "(?>" + g.node(d-1) + ")"
	case k < 39:
		n := g.name()
		g.used[n] = true
		return "(?(" + n + ")" + g.node(d-1) + "|" + g.node(d-1) + ")"
	default:
		return []string{"^", "$", `\b`, `\G`, `\A`, `\z`}[r.Intn(6)]
	}
}

var c08OptSets = []regexp2.RegexOptions{0, 0, 0, regexp2.RightToLeft, regexp2.Singleline, regexp2.IgnoreCase, regexp2.Multiline, regexp2.RightToLeft | regexp2.Singleline, regexp2.ExplicitCapture}

func c08PatGenCase(rng *rand.Rand, i int) c08PatCase {
	g := &c08PatGen{rng: rng, defined: map[string]bool{}, used: map[string]bool{}}
	body := g.node(2 + rng.Intn(3))
	var pre string
	for _, n := range c08Names {
		if g.used[n] && !g.defined[n] {
			pre += "(?<" + n + ">" + c08Lits[rng.Intn(len(c08Lits))] + ")" + []string{"", "?", "*", "+"}[rng.Intn(4)]
		}
	}
	return c08PatCase{Pattern: pre + body, Opts: rng.Intn(len(c08OptSets)), Hex: hex.EncodeToString([]byte(c08Input(rng, 8)))}
}

type c08Cap struct{ I, L int }

type c08M struct {
	Groups [][]c08Cap // captures per group
}

// c08CheckOneMatch applies the per-match part of the property; offs == nil for rune input without a string.
func c08CheckOneMatch(m *regexp2.Match, runes []rune, offs []int, entry string) (key, sum, exp, got string, rec c08M) {
	n := len(runes)
	groups := m.Groups()
	if len(groups) != m.GroupCount() {
		return "oracle:groups", entry + ": len(Groups()) != GroupCount()", fmt.Sprint(m.GroupCount()), fmt.Sprint(len(groups)), rec
	}
	counts, arrays, balancing := regexp2.VerifMatchArrays(m)
	if balancing {
		return "oracle:balancing-flag", entry + ": returned match still has balancing = true", "false", "true", rec
	}
	for gi := range groups {
		g := &groups[gi]
		var caps []c08Cap
		if counts[gi] != len(g.Captures) {
			return "oracle:count", fmt.Sprintf("%s: group %d has %d captures, matchcount says %d", entry, gi, len(g.Captures), counts[gi]), "", "", rec
		}
		for k := 0; k < 2*counts[gi]; k++ {
			if arrays[gi][k] < 0 {
				return "oracle:negative-entry", fmt.Sprintf("%s: capture array of group %d holds a negative entry after tidy", entry, gi), "", fmt.Sprint(arrays[gi][:2*counts[gi]]), rec
			}
		}
		for ci := range g.Captures {
			cp := &g.Captures[ci]
			caps = append(caps, c08Cap{cp.RuneIndex, cp.RuneLength})
			if cp.RuneIndex < 0 || cp.RuneLength < 0 || cp.RuneIndex+cp.RuneLength > n {
				return "oracle:bounds", fmt.Sprintf("%s: capture %d of group %d lies outside the input of %d runes", entry, ci, gi, n), "0 <= index <= index+length <= n", fmt.Sprintf("(%d,%d)", cp.RuneIndex, cp.RuneLength), rec
			}
			want := runes[cp.RuneIndex : cp.RuneIndex+cp.RuneLength]
			if cp.String() != string(want) || string(cp.Runes()) != string(want) || len(cp.Runes()) != len(want) {
				return "oracle:text", fmt.Sprintf("%s: String()/Runes() of capture %d of group %d is not the addressed slice", entry, ci, gi), string(want), cp.String(), rec
			}
			bi, bl := cp.ByteRange()
			var wi, wl int
			if offs != nil {
				wi, wl = offs[cp.RuneIndex], offs[cp.RuneIndex+cp.RuneLength]-offs[cp.RuneIndex]
			} else {
				wi, wl = len(string(runes[:cp.RuneIndex])), len(string(want))
			}
			if bi != wi || bl != wl {
				return "oracle:byterange", fmt.Sprintf("%s: ByteRange() of capture %d of group %d (%d,%d)", entry, ci, gi, cp.RuneIndex, cp.RuneLength), fmt.Sprintf("(%d,%d)", wi, wl), fmt.Sprintf("(%d,%d)", bi, bl), rec
			}
		}
		rec.Groups = append(rec.Groups, caps)
		if len(caps) > 0 {
			last := caps[len(caps)-1]
			if g.RuneIndex != last.I || g.RuneLength != last.L {
				return "oracle:embedded", fmt.Sprintf("%s: embedded capture of group %d is not its last capture", entry, gi), fmt.Sprint(last), fmt.Sprintf("(%d,%d)", g.RuneIndex, g.RuneLength), rec
			}
			bi, bl := g.ByteRange()
			ci, cl := g.Captures[len(caps)-1].ByteRange()
			if bi != ci || bl != cl {
				return "oracle:embedded", fmt.Sprintf("%s: ByteRange of the embedded capture of group %d differs from its last capture's", entry, gi), fmt.Sprint(ci, cl), fmt.Sprint(bi, bl), rec
			}
		} else if g.RuneIndex != 0 || g.RuneLength != 0 {
			return "oracle:embedded", fmt.Sprintf("%s: group %d has no capture but a non-zero embedded capture", entry, gi), "(0,0)", fmt.Sprintf("(%d,%d)", g.RuneIndex, g.RuneLength), rec
		}
	}
	g0 := rec.Groups[0]
	if len(g0) != 1 || g0[0].I != m.RuneIndex || g0[0].L != m.RuneLength || m.Group.RuneIndex != m.RuneIndex {
		return "oracle:group0", entry + ": group 0 does not have exactly one capture equal to the match", fmt.Sprintf("[(%d,%d)]", m.RuneIndex, m.RuneLength), fmt.Sprint(g0), rec
	}
	return "", "", "", "", rec
}

// c08Iterate collects up to limit successive matches, checking each.
func c08Iterate(re *regexp2.Regexp, first func() (*regexp2.Match, error), runes []rune, offs []int, entry string, limit int) (ms []c08M, key, sum, exp, got string, stopped string) {
	m, err := first()
	for ; m != nil && err == nil; m, err = re.FindNextMatch(m) {
		if len(ms) >= limit {
			return ms, "", "", "", "", "limit"
		}
		k, s, e, g, rec := c08CheckOneMatch(m, runes, offs, fmt.Sprintf("%s match #%d", entry, len(ms)))
		if k != "" {
			return ms, k, s, e, g, ""
		}
		ms = append(ms, rec)
	}
	if err != nil {
		return ms, "", "", "", "", "error:" + err.Error()
	}
	return ms, "", "", "", "", ""
}

// c08Kept applies the find-all rule (an empty match adjacent to the previous match is dropped).
func c08Kept(ms []c08M, rtl bool) []c08M {
	var out []c08M
	prevEnd := -1
	for _, m := range ms {
		c := m.Groups[0][0]
		if c.L != 0 || c.I != prevEnd {
			out = append(out, m)
			prevEnd = c.I + c.L
			if rtl {
				prevEnd = c.I
			}
		}
	}
	return out
}

func c08PatCheck(c *core.Ctx, cases []c08PatCase) []core.Outcome {
	outs := make([]core.Outcome, len(cases))
	for ci, cs := range cases {
		o := &outs[ci]
		raw, _ := hex.DecodeString(cs.Hex)
		s := string(raw)
		o.Key = cs.Pattern + "\x00" + cs.Hex + fmt.Sprint(cs.Opts)
		opts := c08OptSets[cs.Opts%len(c08OptSets)]
		re, err := regexp2.Compile(cs.Pattern, opts)
		if err != nil {
			o.Buckets = append(o.Buckets, "compile-error")
			continue
		}
		re.MatchTimeout = 250 * time.Millisecond
		rtl := re.RightToLeft()
		runes, _, offs := c08Decode(s)
		fail := func(key, sum, exp, got string) {
			if o.Fail == nil {
				o.Fail = &core.Failure{Kind: "impl-violation", Key: key, Summary: sum + " [pattern " + cs.Pattern + " opts " + fmt.Sprint(int(opts)) + "]", Expected: exp, Got: got}
			}
		}
		const limit = 40
		p := c08SafeCall(func() {
			ms, k, sm, e, g, stop := c08Iterate(re, func() (*regexp2.Match, error) { return re.FindStringMatch(s) }, runes, offs, "FindStringMatch", limit)
			if k != "" {
				fail(k, sm, e, g)
				return
			}
			if stop != "" {
				o.Buckets = append(o.Buckets, "stopped-"+strings.SplitN(stop, ":", 2)[0])
				return
			}
			rms, k, sm, e, g, stop := c08Iterate(re, func() (*regexp2.Match, error) { return re.FindRunesMatch(runes) }, runes, nil, "FindRunesMatch", limit)
			if k != "" {
				fail(k, sm, e, g)
				return
			}
			if stop != "" {
				o.Buckets = append(o.Buckets, "stopped-"+strings.SplitN(stop, ":", 2)[0])
				return
			}
			if fmt.Sprint(ms) != fmt.Sprint(rms) {
				// agreement of the two entry points is property C02, not C08: recorded, not judged here
				o.Buckets = append(o.Buckets, "string-and-rune-entry-differ(C02)")
			}
			// buckets
			nb, multi, ncap := 0, 0, 0
			for _, m := range ms {
				for gi, g := range m.Groups {
					if gi > 0 {
						ncap += len(g)
					}
					if len(g) > 1 {
						multi++
					}
				}
			}
			_ = nb
			switch {
			case len(ms) == 0:
				o.Buckets = append(o.Buckets, "no-match")
			case multi > 0:
				o.Buckets = append(o.Buckets, "match-with-repeated-captures")
			case ncap > 0:
				o.Buckets = append(o.Buckets, "match-with-captures")
			default:
				o.Buckets = append(o.Buckets, "match-group0-only")
			}
			if strings.Contains(cs.Pattern, "(?<-") || strings.Contains(cs.Pattern, "-a>") || strings.Contains(cs.Pattern, "-b>") || strings.Contains(cs.Pattern, "-c>") {
				o.Buckets = append(o.Buckets, "pattern-with-balancing-group")
			}
			if strings.Contains(cs.Pattern, "(?<=") || strings.Contains(cs.Pattern, "(?<!") || rtl {
				o.Buckets = append(o.Buckets, "pattern-right-to-left-part")
			}
			o.Nontrivial = len(ms) > 0 && ncap > 0
			// byte spans of the kept matches (find-all rule) of the string iteration and of the rune iteration
			spansOf := func(all []c08M) (wantIdx, wantSub [][]int) {
				for _, m := range c08Kept(all, rtl) {
					c0 := m.Groups[0][0]
					wantIdx = append(wantIdx, []int{offs[c0.I], offs[c0.I+c0.L]})
					var sub []int
					for _, g := range m.Groups {
						if len(g) == 0 {
							sub = append(sub, -1, -1)
						} else {
							l := g[len(g)-1]
							sub = append(sub, offs[l.I], offs[l.I+l.L])
						}
					}
					wantSub = append(wantSub, sub)
				}
				return
			}
			wantIdx, wantSub := spansOf(ms)
			rwantIdx, rwantSub := spansOf(rms)
			locs, err := re.FindAllStringIndex(s, -1)
			if err != nil {
				o.Buckets = append(o.Buckets, "stopped-error")
				return
			}
			if fmt.Sprint(locs) != fmt.Sprint(wantIdx) {
				fail("oracle:findall-string-index", "FindAllStringIndex byte indexes are not the byte spans of the successive matches", fmt.Sprint(wantIdx), fmt.Sprint(locs))
				return
			}
			cre := compat.Wrap(re)
			if got := cre.FindAllIndex([]byte(s), -1); fmt.Sprint(got) != fmt.Sprint(rwantIdx) {
				fail("oracle:compat-findall-index", "compat FindAllIndex byte indexes are not the byte spans of the successive matches (rune entry)", fmt.Sprint(rwantIdx), fmt.Sprint(got))
				return
			}
			if got := cre.FindAllStringSubmatchIndex(s, -1); fmt.Sprint(got) != fmt.Sprint(wantSub) {
				fail("oracle:compat-submatch-index", "compat FindAllStringSubmatchIndex is not the byte spans of the groups' last captures", fmt.Sprint(wantSub), fmt.Sprint(got))
				return
			}
			var wantFirst []int
			if len(rms) > 0 {
				wantFirst = rwantSub[0]
			}
			if got := cre.FindReaderSubmatchIndex(strings.NewReader(s)); fmt.Sprint(got) != fmt.Sprint(wantFirst) {
				fail("oracle:compat-reader-index", "compat FindReaderSubmatchIndex is not the byte spans of the first match's groups", fmt.Sprint(wantFirst), fmt.Sprint(got))
				return
			}
		})
		if p != "" {
			fail("panic:"+c08PanicClass(p), "panic while matching: "+p, "no panic", p)
		}
	}
	return outs
}

func c08PanicClass(p string) string {
	switch {
	case strings.Contains(p, "index out of range [-"):
		return "negative-index"
	case strings.Contains(p, "index out of range"):
		return "index-out-of-range"
	case strings.Contains(p, "slice bounds out of range"):
		return "slice-bounds"
	case strings.Contains(p, "timeout"):
		return "timeout"
	}
	return "other"
}

// ---------------------------------------------------------------------------------------------
// Leg B: straight-line capture programs

type c08ProgCase struct {
	Pattern string     `json:"pattern"`
	Input   string     `json:"input"`
	Names   []string   `json:"names"` // group names used, ops refer to them by index+1 (0 = group 0)
	Ops     [][]int    `json:"ops"`   // [0,c,s,e] Capture; [1,c,u,s,e] transferCapture (c = -1: none); [2] uncapture
	Abs     [][][2]int `json:"abs"`   // expected live captures per group (index 0 = group 0) incl. ill-formed ones
	Poison  [][]bool   `json:"poison"`
}

type c08Ent struct {
	s, l   int
	poison bool
}

type c08Prog struct {
	rng    *rand.Rand
	pat    strings.Builder
	ops    [][]int
	pos    int
	stacks [4][]c08Ent // index = name index
	seen   [4]bool
	crawl  int
	quirk  bool // allow ill-formed (negative length) transfers
	maxpos int
}

func (p *c08Prog) gname(g int) string { return string(rune('a' + g)) }

func (p *c08Prog) liveOK(g int) bool {
	st := p.stacks[g]
	return len(st) > 0 && !st[len(st)-1].poison
}

func (p *c08Prog) pickLive() int {
	var c []int
	for g := 0; g < 4; g++ {
		if p.liveOK(g) {
			c = append(c, g)
		}
	}
	if len(c) == 0 {
		return -1
	}
	return c[p.rng.Intn(len(c))]
}

func (p *c08Prog) push(g, s, e int) {
	if e < s {
		s, e = e, s
	}
	p.stacks[g] = append(p.stacks[g], c08Ent{s, e - s, false})
	p.seen[g] = true
}

// transfer computes the abstract effect of (?<h-g>…) whose content matched [cs,ce); ok=false when the
// result would be ill-formed and quirks are off.
func (p *c08Prog) transfer(h, g, cs, ce int, dry bool) bool {
	if ce < cs {
		cs, ce = ce, cs
	}
	top := p.stacks[g][len(p.stacks[g])-1]
	s2, e2 := top.s, top.s+top.l
	var s, e int
	switch {
	case cs >= e2:
		s, e = e2, cs
	case ce <= s2:
		s, e = ce, s2 // the interval between the two (since /repo 9024ff6)
	default:
		s, e = cs, ce
		if s2 > s {
			s = s2
		}
		if e > e2 {
			e = e2
		}
	}
	if h >= 0 && e < s && !p.quirk {
		return false
	}
	if dry {
		return true
	}
	p.stacks[g] = p.stacks[g][:len(p.stacks[g])-1]
	if h >= 0 {
		p.stacks[h] = append(p.stacks[h], c08Ent{s, e - s, e < s})
		p.seen[h] = true
	}
	return true
}

func (p *c08Prog) snapshot() (int, [4][]c08Ent) {
	var cp [4][]c08Ent
	for i := range cp {
		cp[i] = append([]c08Ent(nil), p.stacks[i]...)
	}
	return p.pos, cp
}

// piece emits one construct; depth limits nesting of failing alternatives.
func (p *c08Prog) piece(depth int) {
	p.pieceInner(depth)
	if p.pos > p.maxpos {
		p.maxpos = p.pos
	}
}

func (p *c08Prog) pieceInner(depth int) {
	r := p.rng
	g := r.Intn(4)
	switch k := r.Intn(20); {
	case k < 5: // (?<g>x)
		fmt.Fprintf(&p.pat, "(?<%s>x)", p.gname(g))
		p.ops = append(p.ops, []int{0, g + 1, p.pos, p.pos + 1})
		p.push(g, p.pos, p.pos+1)
		p.crawl++
		p.pos++
	case k < 6: // (?<g>) empty capture, or two characters
		if r.Intn(2) == 0 {
			fmt.Fprintf(&p.pat, "(?<%s>)", p.gname(g))
			p.ops = append(p.ops, []int{0, g + 1, p.pos, p.pos})
			p.push(g, p.pos, p.pos)
		} else {
			fmt.Fprintf(&p.pat, "(?<%s>xx)", p.gname(g))
			p.ops = append(p.ops, []int{0, g + 1, p.pos, p.pos + 2})
			p.push(g, p.pos, p.pos+2)
			p.pos += 2
		}
		p.crawl++
	case k < 9: // (?<-u>x)
		u := p.pickLive()
		if u < 0 {
			return
		}
		fmt.Fprintf(&p.pat, "(?<-%s>x)", p.gname(u))
		p.ops = append(p.ops, []int{1, -1, u + 1, p.pos, p.pos + 1})
		p.transfer(-1, u, p.pos, p.pos+1, false)
		p.crawl++
		p.pos++
	case k < 12: // (?<h-u>x), also with empty or two-character content
		u := p.pickLive()
		if u < 0 {
			return
		}
		w := []int{1, 1, 1, 0, 2}[r.Intn(5)]
		if !p.transfer(g, u, p.pos, p.pos+w, true) {
			return
		}
		fmt.Fprintf(&p.pat, "(?<%s-%s>%s)", p.gname(g), p.gname(u), strings.Repeat("x", w))
		p.ops = append(p.ops, []int{1, g + 1, u + 1, p.pos, p.pos + w})
		p.transfer(g, u, p.pos, p.pos+w, false)
		p.crawl += 2
		p.pos += w
	case k < 14: // capture inside a look-ahead, at distance 0..2
		d := r.Intn(3)
		fmt.Fprintf(&p.pat, "(?=%s(?<%s>x))", strings.Repeat("x", d), p.gname(g))
		p.ops = append(p.ops, []int{0, g + 1, p.pos + d, p.pos + d + 1})
		p.push(g, p.pos+d, p.pos+d+1)
		p.crawl++
	case k < 16: // capture inside a look-behind (right-to-left: Capture gets start > end)
		d := r.Intn(2)
		if p.pos < d+1 {
			return
		}
		fmt.Fprintf(&p.pat, "(?<=(?<%s>x)%s)", p.gname(g), strings.Repeat("x", d))
		p.ops = append(p.ops, []int{0, g + 1, p.pos - d, p.pos - d - 1})
		p.push(g, p.pos-d-1, p.pos-d)
		p.crawl++
	case k < 17: // balancing group inside a look-behind or look-ahead
		u := p.pickLive()
		if u < 0 {
			return
		}
		h := g
		if r.Intn(3) == 0 {
			h = -1
		}
		hn := ""
		if h >= 0 {
			hn = p.gname(h)
		}
		if r.Intn(2) == 0 {
			if p.pos < 1 || !p.transfer(h, u, p.pos, p.pos-1, true) {
				return
			}
			fmt.Fprintf(&p.pat, "(?<=(?<%s-%s>x))", hn, p.gname(u))
			p.ops = append(p.ops, []int{1, h + 1, u + 1, p.pos, p.pos - 1})
			p.transfer(h, u, p.pos, p.pos-1, false)
		} else {
			if !p.transfer(h, u, p.pos, p.pos+1, true) {
				return
			}
			fmt.Fprintf(&p.pat, "(?=(?<%s-%s>x))", hn, p.gname(u))
			p.ops = append(p.ops, []int{1, h + 1, u + 1, p.pos, p.pos + 1})
			p.transfer(h, u, p.pos, p.pos+1, false)
		}
		if h >= 0 {
			p.crawl += 2
		} else {
			p.ops[len(p.ops)-1][1] = -1
			p.crawl++
		}
	case k < 18: // fixed loop of captures
		n := 2 + r.Intn(2)
		fmt.Fprintf(&p.pat, "(?<%s>x){%d}", p.gname(g), n)
		for i := 0; i < n; i++ {
			p.ops = append(p.ops, []int{0, g + 1, p.pos, p.pos + 1})
			p.push(g, p.pos, p.pos+1)
			p.crawl++
			p.pos++
		}
	default: // a branch that captures and then fails: (?: … y | … )   or a negative look-ahead (?! … y)
		if depth <= 0 {
			return
		}
		pos0, st0 := p.snapshot()
		crawl0 := p.crawl
		neg := r.Intn(3) == 0
		if neg {
			p.pat.WriteString("(?!")
		} else {
			p.pat.WriteString("(?:")
		}
		for i, n := 0, 1+r.Intn(3); i < n; i++ {
			p.piece(depth - 1)
		}
		p.pat.WriteString("y")
		for ; p.crawl > crawl0; p.crawl-- {
			p.ops = append(p.ops, []int{2})
		}
		p.pos, p.stacks = pos0, st0
		if neg {
			p.pat.WriteString(")")
			return
		}
		p.pat.WriteString("|")
		for i, n := 0, r.Intn(3); i < n; i++ {
			p.piece(depth - 1)
		}
		p.pat.WriteString(")")
	}
}

func c08ProgGen(rng *rand.Rand, i int) c08ProgCase {
	p := &c08Prog{rng: rng, quirk: i%16 == 15}
	p.pat.WriteString(`\A`)
	for k, n := 0, 1+rng.Intn(9); k < n; k++ {
		p.piece(2)
	}
	p.ops = append(p.ops, []int{0, 0, 0, p.pos})
	cs := c08ProgCase{Pattern: p.pat.String(), Input: strings.Repeat("x", p.maxpos+3), Ops: p.ops}
	cs.Abs = append(cs.Abs, [][2]int{{0, p.pos}})
	cs.Poison = append(cs.Poison, []bool{false})
	// names in order of first appearance in the pattern = group numbers 1..k
	order := c08NameOrder(cs.Pattern)
	cs.Names = order
	for _, nm := range order {
		g := int(nm[0] - 'a')
		var a [][2]int
		var po []bool
		for _, e := range p.stacks[g] {
			a = append(a, [2]int{e.s, e.l})
			po = append(po, e.poison)
		}
		cs.Abs = append(cs.Abs, a)
		cs.Poison = append(cs.Poison, po)
	}
	return cs
}

// c08NameOrder lists the group names a..d in order of first definition in the pattern.
func c08NameOrder(pat string) []string {
	var order []string
	seen := map[string]bool{}
	for i := 0; i+3 < len(pat); i++ {
		if pat[i] == '(' && pat[i+1] == '?' && pat[i+2] == '<' && pat[i+3] >= 'a' && pat[i+3] <= 'd' {
			n := string(pat[i+3])
			if !seen[n] {
				seen[n] = true
				order = append(order, n)
			}
		}
	}
	return order
}

func c08ProgCheck(c *core.Ctx, cases []c08ProgCase) []core.Outcome {
	outs := make([]core.Outcome, len(cases))
	lines := make([]string, len(cases))
	goAns := make([]string, len(cases))
	for ci, cs := range cases {
		o := &outs[ci]
		o.Key = cs.Pattern
		lines[ci] = "(c08 build 0 (ops))"
		re, err := regexp2.Compile(cs.Pattern)
		if err != nil {
			o.Fail = &core.Failure{Kind: "correspondence-break", Key: "prog:compile", Summary: "straight-line capture program does not compile: " + err.Error(), Expected: "compiles", Got: cs.Pattern}
			continue
		}
		// slot of each name
		slot := map[int]int{0: 0}
		okSlots := true
		for i, nm := range cs.Names {
			slot[i+1] = re.GroupNumberFromName(nm)
			if slot[i+1] != i+1 {
				okSlots = false
			}
		}
		nameIdx := map[int]int{0: 0} // generator group id (1..4 by letter) → position in Names + 1
		for i, nm := range cs.Names {
			nameIdx[int(nm[0]-'a')+1] = i + 1
		}
		if !okSlots {
			o.Fail = &core.Failure{Kind: "correspondence-break", Key: "prog:numbering", Summary: "group numbering is not by order of first appearance", Expected: fmt.Sprint(cs.Names), Got: fmt.Sprint(slot)}
			continue
		}
		var opS []string
		nbal, nun, ill := 0, 0, false
		for _, op := range cs.Ops {
			switch op[0] {
			case 0:
				opS = append(opS, fmt.Sprintf("(cap %d %d %d)", nameIdx[op[1]], op[2], op[3]))
			case 1:
				cn := -1
				if op[1] > 0 {
					cn = nameIdx[op[1]]
				}
				opS = append(opS, fmt.Sprintf("(tr %d %d %d %d)", cn, nameIdx[op[2]], op[3], op[4]))
				nbal++
			default:
				opS = append(opS, "(un)")
				nun++
			}
		}
		for _, po := range cs.Poison {
			for _, b := range po {
				ill = ill || b
			}
		}
		switch {
		case ill:
			o.Buckets = append(o.Buckets, "ill-formed-transfer(negative length)")
		case nbal > 0 && nun > 0:
			o.Buckets = append(o.Buckets, "balance+uncapture")
		case nbal > 0:
			o.Buckets = append(o.Buckets, "balance")
		case nun > 0:
			o.Buckets = append(o.Buckets, "uncapture")
		default:
			o.Buckets = append(o.Buckets, "captures-only")
		}
		o.Nontrivial = nbal > 0 || nun > 0
		capcount := len(cs.Names) + 1
		lines[ci] = core.S("c08", "build", fmt.Sprint(capcount), core.S("ops", opS...))

		var m *regexp2.Match
		if p := c08SafeCall(func() { m, err = re.FindStringMatch(cs.Input) }); p != "" {
			o.Fail = &core.Failure{Kind: "impl-violation", Key: "panic:" + c08PanicClass(p), Summary: "panic while matching a straight-line capture program: " + p, Expected: "no panic", Got: p}
			continue
		}
		if err != nil || m == nil {
			o.Fail = &core.Failure{Kind: "correspondence-break", Key: "prog:nomatch", Summary: "straight-line capture program did not match its input (the predicted call sequence is wrong)", Expected: "match", Got: fmt.Sprint(m, err)}
			continue
		}
		counts, arrays, bal := regexp2.VerifMatchArrays(m)
		var live, absS, grpS []string
		for g := 0; g < capcount; g++ {
			live = append(live, core.SInts(arrays[g][:2*counts[g]]))
		}
		for g, st := range cs.Abs {
			var ps []string
			for _, e := range st {
				ps = append(ps, fmt.Sprintf("(%d %d)", e[0], e[1]))
			}
			absS = append(absS, "("+strings.Join(ps, " ")+")")
			_ = g
		}
		groups := m.Groups()
		var wantGroups [][]c08Cap
		for gi, g := range groups {
			var ps []string
			for _, cp := range g.Captures {
				ps = append(ps, fmt.Sprintf("(%d %d)", cp.RuneIndex, cp.RuneLength))
			}
			grpS = append(grpS, fmt.Sprintf("((%d %d) (%s))", g.RuneIndex, g.RuneLength, strings.Join(ps, " ")))
			var w []c08Cap
			for k, e := range cs.Abs[gi] {
				if !cs.Poison[gi][k] {
					w = append(w, c08Cap{e[0], e[1]})
				}
			}
			wantGroups = append(wantGroups, w)
			var gotCaps []c08Cap
			for _, cp := range g.Captures {
				gotCaps = append(gotCaps, c08Cap{cp.RuneIndex, cp.RuneLength})
			}
			if fmt.Sprint(gotCaps) != fmt.Sprint(w) && o.Fail == nil {
				o.Fail = &core.Failure{Kind: "impl-violation", Key: "stack-semantics", Summary: fmt.Sprintf("captures of group %d are not the live captures of the push/cancel semantics of the program", gi), Expected: fmt.Sprint(w), Got: fmt.Sprint(gotCaps)}
			}
		}
		goAns[ci] = core.S("ok", core.S("abs", absS...), core.S("post", core.SInts(counts), "("+strings.Join(live, " ")+")", core.SBool(bal)),
			core.S("cap0", fmt.Sprintf("(%d %d)", m.RuneIndex, m.RuneLength)), core.S("groups", grpS...))
	}
	res, err := c.RunDriver(lines)
	if err != nil {
		for i := range outs {
			if outs[i].Fail == nil {
				outs[i].Fail = core.DriverFailure(err)
				break
			}
		}
		return outs
	}
	for i := range cases {
		if outs[i].Fail != nil {
			continue
		}
		if res[i] != goAns[i] {
			outs[i].Fail = &core.Failure{Kind: "correspondence-break", Key: "model:" + c08DiffTag(res[i], goAns[i]),
				Summary: "Lean builder model (ops → tidy → groups) disagrees with the arrays of the real match (first difference: " + c08DiffTag(res[i], goAns[i]) + ")", Expected: res[i], Got: goAns[i]}
		}
	}
	return outs
}

func init() {
	core.Register("C08", func(c *core.Ctx) {
		h := func(b []byte) string { return hex.EncodeToString(b) }
		core.RunLeg(c, core.Leg[c08MapCase]{
			Name: "M", Kind: "correspondence+oracle",
			Rule: "random strings of up to 9 pieces (every 10th case up to 40) drawn from ASCII, 2/3/4-byte runes, literal U+FFFD and invalid sequences (lone continuation/lead bytes, truncated 3/4-byte forms, an encoded surrogate, an overlong form, a value above U+10FFFF); 1/8 pure ASCII (nil tables), 1/8 ASCII with one wide/invalid piece last; every 5th case a rune slice with surrogates, negative and too-large values for the rune entry point; up to 3 rune spans per string. Observed through the API: stringByteOffsets (ByteRange of the empty matches), stringByteMapper (FindAllStringIndex), bytesToRunesAndOffsets (compat.FindAllIndex), readRunes (compat.FindReaderSubmatchIndex), runeByteOffsets (ByteRange on rune input), the byte→rune start lookup at every byte index (FindStringMatchStartingAt, Replace) — all compared with a recomputation with unicode/utf8 (oracle) and with the Lean model's tables (correspondence). non-trivial = has a multi-byte rune, an invalid byte or a rune-slice input; distinct by input",
			Corpus: []c08MapCase{
				{Hex: h([]byte("a\xc3\xa9\xff\xe2\x82\xac\xef\xbf\xbd\xf0\x9f\x98\x80\x80z")), Spans: [][2]int{{2, 4}, {0, 8}, {8, 0}}},
				{Hex: h([]byte("ab\xff"))}, {Hex: h([]byte("abc"))}, {Hex: ""}, {Hex: h([]byte("\xed\xa0\x80"))},
				{Hex: h([]byte("xy")), Runes: []int32{0xD800, -1, 'a', 0x110000, 0x1F600}},
			},
			N: c.N(4000, 150000), Gen: c08MapGen, Check: c08MapCheck, Batch: 500,
		})
		core.RunLeg(c, core.Leg[c08PatCase]{
			Name: "P", Kind: "oracle",
			Rule: "random pattern ASTs of depth 2-4 (literals incl. multi-byte and U+FFFD, classes, concatenation, alternation, unnamed and named captures, greedy/lazy quantifiers, look-ahead/look-behind, balancing groups (?<-a>…) (?<b-a>…), back-references, atomic groups, conditionals, anchors) under 7 option sets incl. RightToLeft × random inputs (as in leg M); all successive matches (≤ 40) through FindStringMatch/FindNextMatch and FindRunesMatch/FindNextMatch: bounds of every capture of every group, group 0 = the match, embedded capture = last capture, String()/Runes() = addressed slice, ByteRange() = recomputed UTF-8 span, no negative array entries and balancing=false after tidy, string and rune entry points agree; FindAllStringIndex, compat FindAllIndex / FindAllStringSubmatchIndex / FindReaderSubmatchIndex byte indexes = spans of the same matches. non-trivial = at least one match with a capture in a group > 0; distinct by (pattern, options, input)",
			Corpus: []c08PatCase{
				{Pattern: `(?<a>x)(?<b-a>y)`, Hex: h([]byte("€xy"))},
				{Pattern: `(?<=(?<a>\w)+)(?<b>.)`, Hex: h([]byte("aé\xffb"))},
				{Pattern: `(?:(?<a>\()|(?<-a>\))|[^()])+(?(a)(?!))`, Hex: h([]byte("(é(x))"))},
				{Pattern: `(?=.*(?<a>x))(?<b-a>y)`, Hex: h([]byte("y.x"))},
				// known finding: the ill-formed capture (2,-1) of group b is then read by the back-reference
				{Pattern: `(?=.*(?<a>x))(?<b-a>y)\k<b>`, Hex: h([]byte("y.x"))},
			},
			N: c.N(20000, 1000000), Gen: c08PatGenCase, Check: c08PatCheck, Batch: 1000,
		})
		core.RunLeg(c, core.Leg[c08ProgCase]{
			Name: "B", Kind: "correspondence+oracle",
			Rule:   "straight-line capture programs: \\A followed by up to 9 constructs over an input of x's — (?<g>x), empty and two-character captures, (?<-g>x), (?<h-g>…) with content of 0-2 characters, captures and balancing groups inside look-ahead (distance 0-2) and look-behind (right-to-left Capture), fixed loops of captures, and branches / negative look-aheads that capture and then fail (nested ≤ 2) — so that the sequence of Capture / transferCapture / uncapture calls is known by construction (balancing only on a live well-formed capture). The real interpreter runs the pattern; counts, live array prefixes after tidy, group 0 and Groups() (VerifMatchArrays, Groups) are compared with the Lean builder model run on the call sequence, the model's abstract view with the generator's push/cancel stacks, and Groups() with those stacks (oracle). Every 16th case admits transfers whose interval comes out with negative length. non-trivial = has a balance or an uncapture; distinct by pattern",
			Corpus: []c08ProgCase{},
			N:      c.N(10000, 400000), Gen: c08ProgGen, Check: c08ProgCheck, Batch: 1000,
		})
	})
}
