package legs

import (
	"fmt"
	"math/rand"
	"os"
	"time"

	"rvharness/internal/callmix"
	"rvharness/internal/core"

	regexp2 "github.com/dlclark/regexp2/v2"
)

// C12 — Results are independent of call history.
//
// Leg Hs (model-free oracle): random call histories over the shared Regexp table of package
// callmix; every call's canonical result must equal the result of the same call on a Regexp
// compiled for that call alone, and after every call the pooled interpreter state must satisfy the
// executable reset invariant.

// RV_C12_SLOW=1 reports calls that take unusually long (generator tuning aid; stderr only)
var c12SlowLog = os.Getenv("RV_C12_SLOW") != ""

type c12Case struct {
	Steps []callmix.Step `json:"steps"`
}

// additional history-only ops: "Open"/"OpenRunes" start a FindNextMatch chain that later "Next"
// steps on the same Regexp continue, with arbitrary other calls in between.
func c12Gen(thorough bool) func(rng *rand.Rand, i int) c12Case {
	return func(rng *rand.Rand, i int) c12Case {
		n := 20 + rng.Intn(41)
		if thorough && rng.Intn(10) == 0 {
			n = 100 + rng.Intn(200)
		}
		// a history concentrates on a few Regexps so that reuse is frequent
		focus := []int{rng.Intn(len(callmix.Specs)), rng.Intn(len(callmix.Specs)), rng.Intn(len(callmix.Specs))}
		replaceHeavy := rng.Intn(5) == 0 // enough distinct replacements on one Regexp to cycle its cache
		var cs c12Case
		for len(cs.Steps) < n {
			st, _ := callmix.GenStep(rng, thorough)
			if replaceHeavy && rng.Intn(10) < 7 {
				st = callmix.Step{Re: focus[0], Op: "Replace", Repl: rng.Intn(len(callmix.Replacements)), Count: -1, StartAt: -1}
				st.In, _ = callmix.GenInput(rng, callmix.Specs[st.Re], false)
				if st.In.Reps > 6 {
					st.In.Reps = 1 + st.In.Reps%6
				}
				callmix.Normalize(rng, &st)
				cs.Steps = append(cs.Steps, st)
				continue
			}
			if rng.Intn(4) != 0 {
				st.Re = focus[rng.Intn(len(focus))]
				st.In, _ = callmix.GenInput(rng, callmix.Specs[st.Re], thorough)
				if st.Op == "FindAt" || st.Op == "FindRunesAt" || st.StartAt > 0 {
					st.StartAt = rng.Intn(len(st.In.String()) + 1)
				}
			}
			switch rng.Intn(12) {
			case 0:
				st.Op, st.Chain = "Open", 0
			case 1:
				st.Op, st.Chain = "OpenRunes", 0
			case 2, 3:
				st.Op = "Next"
			}
			callmix.Normalize(rng, &st)
			cs.Steps = append(cs.Steps, st)
		}
		return cs
	}
}

type c12Chain struct {
	shared, ref *regexp2.Match
	refRe       *regexp2.Regexp
	retained    []*regexp2.Match // matches handed out by the shared Regexp ...
	dumps       []string         // ... and what they looked like when they were returned
}

func c12Snapshot(re *regexp2.Regexp) string {
	s := regexp2.VerifRunnerSnapshot(re)
	if !s.CodeIsMain {
		return "pooled runner still has the bool-only program selected"
	}
	if !s.RuntextNil {
		return "pooled runner still references the input text"
	}
	if !s.MatchTextNil {
		return "pooled runner's match object still references the input text"
	}
	return ""
}

func c12RunHistory(cs c12Case, shared []*regexp2.Regexp, o *core.Outcome) {
	chains := map[int]*c12Chain{}
	var snapFail *core.Failure
	fail := func(i int, st callmix.Step, what, want, got string) {
		o.Fail = &core.Failure{
			Kind: "impl-violation", Key: "history:" + what + ":" + st.Op + ":" + callmix.Specs[st.Re].Name,
			Summary:  fmt.Sprintf("step %d (%s on %s, input %d bytes) %s", i, st.Op, callmix.Specs[st.Re].Name, len(st.In.String()), what),
			Expected: want, Got: got,
		}
	}
	for i, st := range cs.Steps {
		if st.Re < 0 || st.Re >= len(shared) {
			continue
		}
		re := shared[st.Re]
		spec := callmix.Specs[st.Re]
		o.Buckets = append(o.Buckets, "op:"+st.Op, "re:"+spec.Name)
		if st.Op != "Next" {
			o.Buckets = append(o.Buckets, "in:"+callmix.InputBucket(st.In))
		}
		var got, want string
		t0 := time.Now()
		switch st.Op {
		case "Open", "OpenRunes":
			fresh, err := spec.CompileIsolated()
			if err != nil {
				fail(i, st, "fresh-compile-failed", "compiles", err.Error())
				return
			}
			ch := &c12Chain{refRe: fresh}
			s := st.In.String()
			var e1, e2 error
			if st.Op == "Open" {
				ch.shared, e1 = re.FindStringMatch(s)
				ch.ref, e2 = fresh.FindStringMatch(s)
			} else {
				ch.shared, e1 = re.FindRunesMatch([]rune(s))
				ch.ref, e2 = fresh.FindRunesMatch([]rune(s))
			}
			got = callmix.DumpMatch(ch.shared) + " " + callmix.ErrClass(e1)
			want = callmix.DumpMatch(ch.ref) + " " + callmix.ErrClass(e2)
			if ch.shared != nil {
				ch.retained, ch.dumps = append(ch.retained, ch.shared), append(ch.dumps, callmix.DumpMatch(ch.shared))
			}
			if old := chains[st.Re]; old != nil {
				// the replaced chain's matches must still look as they did
				if k := c12Retained(old); k >= 0 {
					fail(i, st, "returned-match-mutated", old.dumps[k], callmix.DumpMatch(old.retained[k]))
					return
				}
			}
			chains[st.Re] = ch
		case "Next":
			ch := chains[st.Re]
			if ch == nil || ch.shared == nil || ch.ref == nil {
				continue
			}
			var e1, e2 error
			ch.shared, e1 = re.FindNextMatch(ch.shared)
			ch.ref, e2 = ch.refRe.FindNextMatch(ch.ref)
			got = callmix.DumpMatch(ch.shared) + " " + callmix.ErrClass(e1)
			want = callmix.DumpMatch(ch.ref) + " " + callmix.ErrClass(e2)
			if ch.shared != nil {
				ch.retained, ch.dumps = append(ch.retained, ch.shared), append(ch.dumps, callmix.DumpMatch(ch.shared))
			}
		default:
			iso, err := spec.CompileIsolated()
			if err != nil {
				fail(i, st, "fresh-compile-failed", "compiles", err.Error())
				return
			}
			got = callmix.Exec(re, st)
			want = callmix.Exec(iso, st)
			if got == want {
				// also the literal statement: a fresh Regexp with the same options (it shares the global pools)
				fresh, err := spec.Compile()
				if err != nil {
					fail(i, st, "fresh-compile-failed", "compiles", err.Error())
					return
				}
				if w2 := callmix.Exec(fresh, st); w2 != want {
					fail(i, st, "fresh-regexp-differs-from-isolated-regexp", want, w2)
					return
				}
			}
		}
		if d := time.Since(t0); c12SlowLog && d > 300*time.Millisecond {
			fmt.Fprintf(os.Stderr, "c12: slow step %d %s on %s: %v (input %d bytes, %q...)\n", i, st.Op, callmix.Specs[st.Re].Name, d, len(st.In.String()), st.In.Unit)
		}
		if got != want {
			fail(i, st, "result-differs-from-fresh-regexp", want, got)
			return
		}
		switch tok := got[lastSpace(got)+1:]; tok {
		case "ok", "stacklimit", "timeout":
			o.Buckets = append(o.Buckets, "outcome:"+tok)
		default:
			o.Buckets = append(o.Buckets, "outcome:other-error")
		}
		if msg := c12Snapshot(re); msg != "" && snapFail == nil {
			// keep going: a wrong result later in the history is the stronger witness
			fail(i, st, "runner-not-reset", "CodeIsMain && RuntextNil && MatchTextNil", msg)
			snapFail, o.Fail = o.Fail, nil
		}
	}
	if snapFail != nil {
		defer func() {
			if o.Fail == nil {
				o.Fail = snapFail
			}
		}()
	}
	for re, ch := range chains {
		if k := c12Retained(ch); k >= 0 {
			fail(len(cs.Steps), callmix.Step{Re: re, Op: "Next"}, "returned-match-mutated", ch.dumps[k], callmix.DumpMatch(ch.retained[k]))
			return
		}
	}
}

func lastSpace(s string) int {
	for i := len(s) - 1; i >= 0; i-- {
		if s[i] == ' ' {
			return i
		}
	}
	return -1
}

// c12Retained re-dumps the matches a chain handed out; index of the first that changed, or -1.
func c12Retained(ch *c12Chain) int {
	for k, m := range ch.retained {
		if callmix.DumpMatch(m) != ch.dumps[k] {
			return k
		}
	}
	return -1
}

func c12Check(c *core.Ctx, cases []c12Case) []core.Outcome {
	outs := make([]core.Outcome, len(cases))
	for i, cs := range cases {
		o := &outs[i]
		if len(cs.Steps) == 0 {
			continue
		}
		o.Key = fmt.Sprintf("%d:%v", len(cs.Steps), cs.Steps[0])
		o.Nontrivial = len(cs.Steps) >= 2
		// every history starts from freshly compiled Regexps (so a replay sees the same states)
		c12RunHistory(cs, callmix.MustCompileAll(), o)
	}
	return outs
}

func init() {
	core.Register("C12", func(c *core.Ctx) {
		regexp2.SetTimeoutCheckPeriod(callmix.ClockPeriod)
		corpus := []c12Case{
			// a bool-only call followed by a capturing call on the same Regexp
			{Steps: []callmix.Step{
				{Re: 0, Op: "MatchString", In: callmix.Input{Unit: "foo12 bar ", Reps: 3}, StartAt: -1},
				{Re: 0, Op: "Find", In: callmix.Input{Unit: "foo12 bar ", Reps: 3}, Chain: 2, StartAt: -1},
			}},
			// a balancing match whose flag must not survive into the next call, via Replace (quick tidy)
			{Steps: []callmix.Step{
				{Re: 1, Op: "Replace", In: callmix.Input{Head: "x(", Unit: "(a)b", Reps: 4, Tail: ")"}, Repl: 11, Count: 1, StartAt: -1},
				{Re: 1, Op: "MatchString", In: callmix.Input{Head: "x(", Unit: "(a)b", Reps: 4, Tail: ")"}, StartAt: -1},
				{Re: 1, Op: "Replace", In: callmix.Input{Head: "((", Unit: "a", Reps: 4, Tail: "))"}, Repl: 10, StartAt: -1},
				{Re: 1, Op: "Find", In: callmix.Input{Head: "(", Unit: "a", Reps: 2, Tail: ")"}, StartAt: -1},
			}},
			// a long input followed by a short multi-byte one (stale pooled runes beyond the decoded prefix)
			{Steps: []callmix.Step{
				{Re: 11, Op: "MatchString", In: callmix.Input{Unit: "foo12 bar ", Reps: 100, Tail: "end"}, StartAt: -1},
				{Re: 11, Op: "FindAll", In: callmix.Input{Unit: "é日本 w7 ", Reps: 60, Tail: "ü"}, StartAt: -1},
				{Re: 11, Op: "Replace", In: callmix.Input{Unit: "é日本 w7 ", Reps: 3, Tail: "ü"}, Repl: 0, StartAt: -1},
			}},
			// stack limit, then an ordinary call on the same Regexp; timeout, then an ordinary call
			{Steps: []callmix.Step{
				{Re: 3, Op: "Find", In: callmix.Input{Unit: "a", Reps: 5000, Tail: "c"}, StartAt: -1},
				{Re: 3, Op: "Find", In: callmix.Input{Unit: "a", Reps: 5, Tail: "c"}, StartAt: -1},
				{Re: 4, Op: "MatchString", In: callmix.Input{Unit: "x", Reps: 50}, StartAt: -1},
				{Re: 4, Op: "Find", In: callmix.Input{Unit: "x", Reps: 5, Tail: "y"}, StartAt: -1},
			}},
		}
		// more distinct replacements than cache entries, then the first ones again
		var lru c12Case
		for k := 0; k < len(callmix.Replacements)+8; k++ {
			lru.Steps = append(lru.Steps, callmix.Step{Re: 0, Op: "Replace", In: callmix.Input{Unit: "foo12 bar ", Reps: 2}, Repl: k % len(callmix.Replacements), StartAt: -1})
		}
		corpus = append(corpus, lru)
		core.RunLeg(c, core.Leg[c12Case]{
			Name: "Hs", Kind: "oracle",
			Rule:   "random call histories (20-60 calls; thorough: some of 100-300) over 18 shared Regexps (balancing groups, bool-only-eligible patterns, stack-limited and timed patterns, RTL, sparse groups, pooling/caching disabled or tightened); each call = entry point (MatchString, MatchRunes, FindStringMatch/FindRunesMatch(+StartingAt) with FindNextMatch chains, chains kept open across other calls, FindAllStringIndex/RunesIndex, Replace with 43 distinct replacements, ReplaceFunc, Split) x input (8 shapes, byte length around the pool classes 1K/4K/16K, some 64K, thorough 256K); oracle: canonical result (value, error class, all captures) equals the same call on a Regexp compiled for that call alone with pooling and caching switched off (nothing reused), and on one compiled with the same options; VerifRunnerSnapshot invariant after each call; matches handed out earlier are unchanged at the end. Non-trivial = at least 2 calls",
			Corpus: corpus, N: c.N(300, 8000), Gen: c12Gen(c.Thorough()), Check: c12Check, Batch: 64,
		})
	})
}
