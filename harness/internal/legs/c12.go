package legs

import (
	"container/list"
	"fmt"
	"math/rand"
	"os"
	"reflect"
	"runtime"
	"runtime/debug"
	"strings"
	"time"

	"rvharness/internal/callmix"
	"rvharness/internal/core"

	regexp2 "github.com/dlclark/regexp2/v2"
)

// C12 — Results are independent of call history.
//
// Leg Hs (model-free oracle): random call histories over the shared Regexp table of package
// callmix; every call's canonical result must equal the result of the same call on a Regexp
// compiled for that call alone, and after every call the pooled interpreter state must satisfy the
// executable reset invariant.

// RV_C12_SLOW=1 reports calls that take unusually long (generator tuning aid; stderr only)
var c12SlowLog = os.Getenv("RV_C12_SLOW") != ""

type c12Case struct {
	Steps []callmix.Step `json:"steps"`
}

// additional history-only ops: "Open"/"OpenRunes" start a FindNextMatch chain that later "Next"
// steps on the same Regexp continue, with arbitrary other calls in between.
func c12Gen(thorough bool) func(rng *rand.Rand, i int) c12Case {
	return func(rng *rand.Rand, i int) c12Case {
		n := 20 + rng.Intn(41)
		if thorough && rng.Intn(10) == 0 {
			n = 100 + rng.Intn(200)
		}
		// a history concentrates on a few Regexps so that reuse is frequent
		focus := []int{rng.Intn(len(callmix.Specs)), rng.Intn(len(callmix.Specs)), rng.Intn(len(callmix.Specs))}
		replaceHeavy := rng.Intn(5) == 0 // enough distinct replacements on one Regexp to cycle its cache
		var cs c12Case
		for len(cs.Steps) < n {
			st, _ := callmix.GenStep(rng, thorough)
			if replaceHeavy && rng.Intn(10) < 7 {
				st = callmix.Step{Re: focus[0], Op: "Replace", Repl: rng.Intn(len(callmix.Replacements)), Count: -1, StartAt: -1}
				st.In, _ = callmix.GenInput(rng, callmix.Specs[st.Re], false)
				if st.In.Reps > 6 {
					st.In.Reps = 1 + st.In.Reps%6
				}
				callmix.Normalize(rng, &st)
				cs.Steps = append(cs.Steps, st)
				continue
			}
			if rng.Intn(4) != 0 {
				st.Re = focus[rng.Intn(len(focus))]
				st.In, _ = callmix.GenInput(rng, callmix.Specs[st.Re], thorough)
				if st.Op == "FindAt" || st.Op == "FindRunesAt" || st.StartAt > 0 {
					st.StartAt = rng.Intn(len(st.In.String()) + 1)
				}
			}
			switch rng.Intn(12) {
			case 0:
				st.Op, st.Chain = "Open", 0
			case 1:
				st.Op, st.Chain = "OpenRunes", 0
			case 2, 3:
				st.Op = "Next"
			}
			callmix.Normalize(rng, &st)
			cs.Steps = append(cs.Steps, st)
		}
		return cs
	}
}

type c12Chain struct {
	shared, ref *regexp2.Match
	refRe       *regexp2.Regexp
	retained    []*regexp2.Match // matches handed out by the shared Regexp ...
	dumps       []string         // ... and what they looked like when they were returned
}

func c12Snapshot(re *regexp2.Regexp) string {
	s := regexp2.VerifRunnerSnapshot(re)
	if !s.CodeIsMain {
		return "pooled runner still has the bool-only program selected"
	}
	if !s.RuntextNil {
		return "pooled runner still references the input text"
	}
	if !s.MatchTextNil {
		return "pooled runner's match object still references the input text"
	}
	return ""
}

func c12RunHistory(cs c12Case, shared []*regexp2.Regexp, o *core.Outcome) {
	chains := map[int]*c12Chain{}
	var snapFail *core.Failure
	fail := func(i int, st callmix.Step, what, want, got string) {
		o.Fail = &core.Failure{
			Kind: "impl-violation", Key: "history:" + what + ":" + st.Op + ":" + callmix.Specs[st.Re].Name,
			Summary:  fmt.Sprintf("step %d (%s on %s, input %d bytes) %s", i, st.Op, callmix.Specs[st.Re].Name, len(st.In.String()), what),
			Expected: want, Got: got,
		}
	}
	for i, st := range cs.Steps {
		if st.Re < 0 || st.Re >= len(shared) {
			continue
		}
		re := shared[st.Re]
		spec := callmix.Specs[st.Re]
		o.Buckets = append(o.Buckets, "op:"+st.Op, "re:"+spec.Name)
		if st.Op != "Next" {
			o.Buckets = append(o.Buckets, "in:"+callmix.InputBucket(st.In))
		}
		var got, want string
		t0 := time.Now()
		switch st.Op {
		case "Open", "OpenRunes":
			fresh, err := spec.CompileIsolated()
			if err != nil {
				fail(i, st, "fresh-compile-failed", "compiles", err.Error())
				return
			}
			ch := &c12Chain{refRe: fresh}
			s := st.In.String()
			var e1, e2 error
			if st.Op == "Open" {
				ch.shared, e1 = re.FindStringMatch(s)
				ch.ref, e2 = fresh.FindStringMatch(s)
			} else {
				ch.shared, e1 = re.FindRunesMatch([]rune(s))
				ch.ref, e2 = fresh.FindRunesMatch([]rune(s))
			}
			got = callmix.DumpMatch(ch.shared) + " " + callmix.ErrClass(e1)
			want = callmix.DumpMatch(ch.ref) + " " + callmix.ErrClass(e2)
			if ch.shared != nil {
				ch.retained, ch.dumps = append(ch.retained, ch.shared), append(ch.dumps, callmix.DumpMatch(ch.shared))
			}
			if old := chains[st.Re]; old != nil {
				// the replaced chain's matches must still look as they did
				if k := c12Retained(old); k >= 0 {
					fail(i, st, "returned-match-mutated", old.dumps[k], callmix.DumpMatch(old.retained[k]))
					return
				}
			}
			chains[st.Re] = ch
		case "Next":
			ch := chains[st.Re]
			if ch == nil || ch.shared == nil || ch.ref == nil {
				continue
			}
			var e1, e2 error
			ch.shared, e1 = re.FindNextMatch(ch.shared)
			ch.ref, e2 = ch.refRe.FindNextMatch(ch.ref)
			got = callmix.DumpMatch(ch.shared) + " " + callmix.ErrClass(e1)
			want = callmix.DumpMatch(ch.ref) + " " + callmix.ErrClass(e2)
			if ch.shared != nil {
				ch.retained, ch.dumps = append(ch.retained, ch.shared), append(ch.dumps, callmix.DumpMatch(ch.shared))
			}
		default:
			iso, err := spec.CompileIsolated()
			if err != nil {
				fail(i, st, "fresh-compile-failed", "compiles", err.Error())
				return
			}
			got = callmix.Exec(re, st)
			want = callmix.Exec(iso, st)
			// A timed call is allowed to time out once its timeout has elapsed; on a loaded machine a short
			// call can be descheduled for longer than the 5 ms timeout of the timed spec. Only a difference
			// that persists over three more executions of the step on both Regexps is a difference.
			for retry := 0; retry < 3 && got != want && spec.TimeoutMs > 0 &&
				(strings.HasSuffix(got, " timeout") != strings.HasSuffix(want, " timeout")); retry++ {
				time.Sleep(20 * time.Millisecond)
				got = callmix.Exec(re, st)
				want = callmix.Exec(iso, st)
			}
			if got == want {
				// also the literal statement: a fresh Regexp with the same options (it shares the global pools)
				fresh, err := spec.Compile()
				if err != nil {
					fail(i, st, "fresh-compile-failed", "compiles", err.Error())
					return
				}
				if w2 := callmix.Exec(fresh, st); w2 != want {
					fail(i, st, "fresh-regexp-differs-from-isolated-regexp", want, w2)
					return
				}
			}
		}
		if d := time.Since(t0); c12SlowLog && d > 300*time.Millisecond {
			fmt.Fprintf(os.Stderr, "c12: slow step %d %s on %s: %v (input %d bytes, %q...)\n", i, st.Op, callmix.Specs[st.Re].Name, d, len(st.In.String()), st.In.Unit)
		}
		if got != want {
			fail(i, st, "result-differs-from-fresh-regexp", want, got)
			return
		}
		switch tok := got[lastSpace(got)+1:]; tok {
		case "ok", "stacklimit", "timeout":
			o.Buckets = append(o.Buckets, "outcome:"+tok)
		default:
			o.Buckets = append(o.Buckets, "outcome:other-error")
		}
		if msg := c12Snapshot(re); msg != "" && snapFail == nil {
			// keep going: a wrong result later in the history is the stronger witness
			fail(i, st, "runner-not-reset", "CodeIsMain && RuntextNil && MatchTextNil", msg)
			snapFail, o.Fail = o.Fail, nil
		}
	}
	if snapFail != nil {
		defer func() {
			if o.Fail == nil {
				o.Fail = snapFail
			}
		}()
	}
	for re, ch := range chains {
		if k := c12Retained(ch); k >= 0 {
			fail(len(cs.Steps), callmix.Step{Re: re, Op: "Next"}, "returned-match-mutated", ch.dumps[k], callmix.DumpMatch(ch.retained[k]))
			return
		}
	}
}

func lastSpace(s string) int {
	for i := len(s) - 1; i >= 0; i-- {
		if s[i] == ' ' {
			return i
		}
	}
	return -1
}

// c12Retained re-dumps the matches a chain handed out; index of the first that changed, or -1.
func c12Retained(ch *c12Chain) int {
	for k, m := range ch.retained {
		if callmix.DumpMatch(m) != ch.dumps[k] {
			return k
		}
	}
	return -1
}

func c12Check(c *core.Ctx, cases []c12Case) []core.Outcome {
	outs := make([]core.Outcome, len(cases))
	for i, cs := range cases {
		o := &outs[i]
		if len(cs.Steps) == 0 {
			continue
		}
		o.Key = fmt.Sprintf("%d:%v", len(cs.Steps), cs.Steps[0])
		o.Nontrivial = len(cs.Steps) >= 2
		// every history starts from freshly compiled Regexps (so a replay sees the same states)
		c12RunHistory(cs, callmix.MustCompileAll(), o)
	}
	return outs
}

// Leg L: the replacement cache against the Lean LRU model ------------------------------------------------
//
// The cache is not reachable through the API or the verif hooks; the harness reads it by reflection
// (fields replaceCache.ll / .cache, entry field key). If those names change the probe fails and the
// leg reports a correspondence break, which is the right outcome: the model no longer describes the code.

type c12LRUCase struct {
	MaxEntries int   `json:"maxEntries"` // OptionMaxCachedReplacerDataEntries (0 and negative: no cache is created)
	Keys       []int `json:"keys"`       // indices into callmix.Replacements
}

func c12CacheKeys(re *regexp2.Regexp) (keys []string, mapLen int, err error) {
	defer func() {
		if r := recover(); r != nil {
			err = fmt.Errorf("reflection probe of Regexp.replaceCache failed: %v", r)
		}
	}()
	v := reflect.ValueOf(re).Elem().FieldByName("replaceCache")
	if !v.IsValid() {
		return nil, 0, fmt.Errorf("Regexp has no field replaceCache")
	}
	if v.IsNil() {
		return nil, -1, nil
	}
	c := v.Elem()
	ll := c.FieldByName("ll")
	cache := c.FieldByName("cache")
	if !ll.IsValid() || !cache.IsValid() || ll.Type() != reflect.TypeOf((*list.List)(nil)) {
		return nil, 0, fmt.Errorf("replacerDataCache has no ll *list.List / cache fields")
	}
	l := (*list.List)(ll.UnsafePointer())
	for e := l.Front(); e != nil; e = e.Next() {
		ev := reflect.ValueOf(e.Value)
		if ev.Kind() == reflect.Pointer {
			ev = ev.Elem()
		}
		k := ev.FieldByName("key")
		if !k.IsValid() || k.Kind() != reflect.String {
			return nil, 0, fmt.Errorf("cache entry has no string field key")
		}
		keys = append(keys, k.String())
	}
	return keys, cache.Len(), nil
}

func c12LRUGen(rng *rand.Rand, i int) c12LRUCase {
	cs := c12LRUCase{MaxEntries: []int{16, 16, 1, 2, 3, 5, 0, -1, 40}[rng.Intn(9)]}
	n := 10 + rng.Intn(80)
	span := 2 + rng.Intn(len(callmix.Replacements)-1) // how many distinct replacements the sequence draws from
	for len(cs.Keys) < n {
		k := rng.Intn(span)
		if rng.Intn(12) == 0 {
			k = len(callmix.Replacements) - 1 // the one longer than MaxCachedReplacerDataBytes
		}
		cs.Keys = append(cs.Keys, k)
	}
	return cs
}

func c12LRUCheck(c *core.Ctx, cases []c12LRUCase) []core.Outcome {
	outs := make([]core.Outcome, len(cases))
	lines := make([]string, len(cases))
	goAns := make([]string, len(cases))
	index := map[string]int{}
	for i, r := range callmix.Replacements {
		index[r] = i
	}
	for i, cs := range cases {
		o := &outs[i]
		o.Key = fmt.Sprint(cs.MaxEntries, cs.Keys)
		distinct := map[int]bool{}
		for _, k := range cs.Keys {
			distinct[k] = true
		}
		o.Nontrivial = len(distinct) >= 2
		o.Buckets = append(o.Buckets, fmt.Sprintf("max=%d", cs.MaxEntries))
		if cs.MaxEntries > 0 && len(distinct) > cs.MaxEntries {
			o.Buckets = append(o.Buckets, "more-distinct-keys-than-entries")
		}
		re, err := regexp2.Compile(`(\w+) (?<who>\w+)`, regexp2.OptionMaxCachedReplacerDataEntries(cs.MaxEntries))
		if err != nil {
			o.Fail = &core.Failure{Kind: "correspondence-break", Key: "lru-compile", Summary: err.Error()}
			continue
		}
		var trace []string
		var uncacheable, unparsable []int
		seenU, seenE := map[int]bool{}, map[int]bool{}
		for _, k := range cs.Keys {
			k = ((k % len(callmix.Replacements)) + len(callmix.Replacements)) % len(callmix.Replacements)
			repl := callmix.Replacements[k]
			want, werr := func() (string, error) {
				iso, _ := regexp2.Compile(`(\w+) (?<who>\w+)`, regexp2.OptionMaxCachedReplacerDataEntries(0))
				return iso.Replace("ab cd", repl, -1, -1)
			}()
			got, gerr := re.Replace("ab cd", repl, -1, -1)
			if got != want || (gerr == nil) != (werr == nil) {
				o.Fail = &core.Failure{Kind: "impl-violation", Key: "lru-result", Summary: "Replace through the cache differs from Replace without a cache", Expected: want, Got: got}
				break
			}
			if gerr != nil && !seenE[k] {
				seenE[k] = true
				unparsable = append(unparsable, k)
			}
			if len(repl) > 4<<10 && !seenU[k] {
				seenU[k] = true
				uncacheable = append(uncacheable, k)
			}
			keys, mapLen, perr := c12CacheKeys(re)
			if perr != nil {
				o.Fail = &core.Failure{Kind: "correspondence-break", Key: "lru-probe", Summary: perr.Error()}
				break
			}
			if mapLen >= 0 && mapLen != len(keys) {
				o.Fail = &core.Failure{Kind: "correspondence-break", Key: "lru-map-list-mismatch", Summary: "the cache's map and list disagree in size (the model keeps them identical)", Expected: fmt.Sprint(len(keys)), Got: fmt.Sprint(mapLen)}
				break
			}
			idx := make([]int, len(keys))
			for j, ks := range keys {
				idx[j] = index[ks]
			}
			trace = append(trace, core.SInts(idx))
		}
		goAns[i] = core.S("ok", trace...)
		mx := cs.MaxEntries
		if mx < 0 {
			mx = 0 // initCaches creates a cache only for MaxCachedReplacerDataEntries > 0
		}
		ks := make([]int, len(cs.Keys))
		for j, k := range cs.Keys {
			ks[j] = ((k % len(callmix.Replacements)) + len(callmix.Replacements)) % len(callmix.Replacements)
		}
		lines[i] = core.S("c12", "lru", fmt.Sprint(mx), core.SInts(uncacheable), core.SInts(unparsable), core.SInts(ks))
	}
	res, err := c.RunDriver(lines)
	if err != nil {
		for i := range outs {
			if outs[i].Fail == nil {
				outs[i].Fail = core.DriverFailure(err)
				break
			}
		}
		return outs
	}
	for i := range cases {
		if outs[i].Fail == nil && res[i] != goAns[i] {
			outs[i].Fail = &core.Failure{Kind: "correspondence-break", Key: "lru-order", Summary: "key order of the replacement cache after each Replace differs from the Lean LRU model", Expected: res[i], Got: goAns[i]}
		}
	}
	return outs
}

// Leg P: poolIndex/get against the Lean pool model, observed through allocation volume -------------------
//
// The pools are package-level variables without a hook. What is observable: with the pools emptied
// (two GCs), the first MatchString on an n-byte input allocates one buffer of the class capacity (4 bytes
// per rune; 4 KiB..1 MiB, far above the ~2 KiB of a new runner), the second allocates nothing; without
// pooling both allocate about 4n bytes.

type c12PoolCase struct {
	Needed int `json:"needed"`
	Max    int `json:"max"`
}

func c12PoolGen(rng *rand.Rand, i int) c12PoolCase {
	edges := []int{1 << 10, 4 << 10, 16 << 10, 64 << 10, 256 << 10}
	e := edges[rng.Intn(len(edges))]
	n := e + []int{0, 1, -1, -rng.Intn(e / 2), rng.Intn(e)}[rng.Intn(5)]
	if rng.Intn(6) == 0 {
		n = 400 + rng.Intn(600)
	}
	mx := []int{-1, -1, 0, 1, 1000, 1024, 1025, 4096, 5000, 16384, 65536, 65537, 262144, 300000}[rng.Intn(14)]
	return c12PoolCase{Needed: n, Max: mx}
}

func c12Probe(re *regexp2.Regexp, s string) (d1, d2 uint64) {
	// one P: sync.Pool's per-P arrays (128 bytes per P and pool, reallocated after every GC) stay small,
	// which keeps everything except the rune buffer below 4 KiB
	defer runtime.GOMAXPROCS(runtime.GOMAXPROCS(1))
	old := debug.SetGCPercent(-1)
	defer debug.SetGCPercent(old)
	runtime.GC()
	runtime.GC()
	var m0, m1, m2 runtime.MemStats
	runtime.ReadMemStats(&m0)
	_, _ = re.MatchString(s)
	runtime.ReadMemStats(&m1)
	_, _ = re.MatchString(s)
	runtime.ReadMemStats(&m2)
	return m1.TotalAlloc - m0.TotalAlloc, m2.TotalAlloc - m1.TotalAlloc
}

func c12PoolCheck(c *core.Ctx, cases []c12PoolCase) []core.Outcome {
	outs := make([]core.Outcome, len(cases))
	lines := make([]string, len(cases))
	goAns := make([]string, len(cases))
	for i, cs := range cases {
		o := &outs[i]
		o.Key = fmt.Sprint(cs.Needed, "/", cs.Max)
		o.Nontrivial = true
		re, err := regexp2.Compile(`\d`, regexp2.OptionMaxCachedRuneBufferLength(cs.Max))
		if err != nil {
			o.Fail = &core.Failure{Kind: "correspondence-break", Key: "pool-compile", Summary: err.Error()}
			continue
		}
		s := strings.Repeat("a", cs.Needed)
		_, _ = re.MatchString("a") // allocate the runner's own storage once (it is dropped by the GCs again, but code paths are warm)
		obs := "inconclusive"
		var d1, d2 uint64
		for try := 0; try < 3 && obs == "inconclusive"; try++ {
			d1, d2 = c12Probe(re, s)
			switch {
			case d2 < 600 && d1 >= 4096:
				obs = fmt.Sprint(int(d1/4096) * 1024) // class capacity in runes
			case d2 >= uint64(cs.Needed)*4 && d1 >= uint64(cs.Needed)*4:
				obs = "-1"
			}
		}
		if obs == "inconclusive" {
			o.Buckets = append(o.Buckets, "measurement-inconclusive")
			goAns[i] = ""
		} else {
			goAns[i] = core.S("ok", obs)
			if obs == "-1" {
				o.Buckets = append(o.Buckets, "observed:unpooled")
			} else {
				o.Buckets = append(o.Buckets, "observed:class-"+obs)
			}
		}
		lines[i] = core.S("c12", "pool", "rune", fmt.Sprint(cs.Needed), fmt.Sprint(cs.Max))
		_ = d1
	}
	res, err := c.RunDriver(lines)
	if err != nil {
		outs[0].Fail = core.DriverFailure(err)
		return outs
	}
	for i := range cases {
		if outs[i].Fail == nil && goAns[i] != "" && res[i] != goAns[i] {
			outs[i].Fail = &core.Failure{Kind: "correspondence-break", Key: "pool-class", Summary: "size class observed through allocation volume differs from the Lean poolIndex/get model", Expected: res[i], Got: goAns[i]}
		}
	}
	return outs
}

func init() {
	core.Register("C12", func(c *core.Ctx) {
		regexp2.SetTimeoutCheckPeriod(callmix.ClockPeriod)
		corpus := []c12Case{
			// a bool-only call followed by a capturing call on the same Regexp
			{Steps: []callmix.Step{
				{Re: 0, Op: "MatchString", In: callmix.Input{Unit: "foo12 bar ", Reps: 3}, StartAt: -1},
				{Re: 0, Op: "Find", In: callmix.Input{Unit: "foo12 bar ", Reps: 3}, Chain: 2, StartAt: -1},
			}},
			// a balancing match whose flag must not survive into the next call, via Replace (quick tidy)
			{Steps: []callmix.Step{
				{Re: 1, Op: "Replace", In: callmix.Input{Head: "x(", Unit: "(a)b", Reps: 4, Tail: ")"}, Repl: 11, Count: 1, StartAt: -1},
				{Re: 1, Op: "MatchString", In: callmix.Input{Head: "x(", Unit: "(a)b", Reps: 4, Tail: ")"}, StartAt: -1},
				{Re: 1, Op: "Replace", In: callmix.Input{Head: "((", Unit: "a", Reps: 4, Tail: "))"}, Repl: 10, StartAt: -1},
				{Re: 1, Op: "Find", In: callmix.Input{Head: "(", Unit: "a", Reps: 2, Tail: ")"}, StartAt: -1},
			}},
			// a long input followed by a short multi-byte one (stale pooled runes beyond the decoded prefix)
			{Steps: []callmix.Step{
				{Re: 11, Op: "MatchString", In: callmix.Input{Unit: "foo12 bar ", Reps: 100, Tail: "end"}, StartAt: -1},
				{Re: 11, Op: "FindAll", In: callmix.Input{Unit: "é日本 w7 ", Reps: 60, Tail: "ü"}, StartAt: -1},
				{Re: 11, Op: "Replace", In: callmix.Input{Unit: "é日本 w7 ", Reps: 3, Tail: "ü"}, Repl: 0, StartAt: -1},
			}},
			// stack limit, then an ordinary call on the same Regexp; timeout, then an ordinary call
			{Steps: []callmix.Step{
				{Re: 3, Op: "Find", In: callmix.Input{Unit: "a", Reps: 5000, Tail: "c"}, StartAt: -1},
				{Re: 3, Op: "Find", In: callmix.Input{Unit: "a", Reps: 5, Tail: "c"}, StartAt: -1},
				{Re: 4, Op: "MatchString", In: callmix.Input{Unit: "x", Reps: 50}, StartAt: -1},
				{Re: 4, Op: "Find", In: callmix.Input{Unit: "x", Reps: 5, Tail: "y"}, StartAt: -1},
			}},
		}
		// more distinct replacements than cache entries, then the first ones again
		var lru c12Case
		for k := 0; k < len(callmix.Replacements)+8; k++ {
			lru.Steps = append(lru.Steps, callmix.Step{Re: 0, Op: "Replace", In: callmix.Input{Unit: "foo12 bar ", Reps: 2}, Repl: k % len(callmix.Replacements), StartAt: -1})
		}
		corpus = append(corpus, lru)
		core.RunLeg(c, core.Leg[c12Case]{
			Name: "Hs", Kind: "oracle",
			Rule:   "random call histories (20-60 calls; thorough: some of 100-300) over 18 shared Regexps (balancing groups, bool-only-eligible patterns, stack-limited and timed patterns, RTL, sparse groups, pooling/caching disabled or tightened); each call = entry point (MatchString, MatchRunes, FindStringMatch/FindRunesMatch(+StartingAt) with FindNextMatch chains, chains kept open across other calls, FindAllStringIndex/RunesIndex, Replace with 43 distinct replacements, ReplaceFunc, Split) x input (8 shapes, byte length around the pool classes 1K/4K/16K, some 64K, thorough 256K); oracle: canonical result (value, error class, all captures) equals the same call on a Regexp compiled for that call alone with pooling and caching switched off (nothing reused), and on one compiled with the same options; VerifRunnerSnapshot invariant after each call; matches handed out earlier are unchanged at the end. Non-trivial = at least 2 calls",
			Corpus: corpus, N: c.N(300, 8000), Gen: c12Gen(c.Thorough()), Check: c12Check, Batch: 64,
		})
		core.RunLeg(c, core.Leg[c12LRUCase]{
			Name: "L", Kind: "correspondence",
			Rule:   "sequences of 10-89 Replace calls on one Regexp whose replacements are drawn from the first 2..43 entries of the replacement table (1 in 12: the 4.8K replacement that is over the cacheable size), cache size in {16,1,2,3,5,40, 0 and -1 = no cache}; after every call the cache's key order (read by reflection: replaceCache.ll, entry.key; map size = list length) equals the key order of the Lean model's getReplacerData run on the same key sequence; each result also equals Replace on a cache-less Regexp. Non-trivial = at least 2 distinct keys",
			Corpus: []c12LRUCase{{MaxEntries: 2, Keys: []int{1, 2, 1, 3, 2}}, {MaxEntries: 16, Keys: []int{0, 1, 2, 3, 4, 5, 6, 7, 8, 9, 10, 11, 12, 13, 14, 15, 16, 0, 17, 1, 42, 42, 23}}},
			N:      c.N(300, 6000), Gen: c12LRUGen, Check: c12LRUCheck,
		})
		core.RunLeg(c, core.Leg[c12PoolCase]{
			Name: "P", Kind: "correspondence",
			Rule:   "(needed, max) pairs: needed around the rune-pool class sizes 1K/4K/16K/64K/256K (exact, +-1, up to half below, up to double), max (OptionMaxCachedRuneBufferLength) in {-1,0,1,1000,1024,1025,4096,5000,16384,65536,65537,262144,300000}; Go side: with the pools emptied by two GCs and the GC switched off, bytes allocated by a first and a second MatchString on an input of `needed` bytes: second ~0 and first in [class*4, class*4+4K) = pooled in that class, both >= 4*needed = not pooled; Lean side: capacity of the class poolIndex chooses (or -1). Inconclusive measurements are counted, not failed. Non-trivial: all",
			Corpus: []c12PoolCase{{Needed: 1024, Max: -1}, {Needed: 1025, Max: -1}, {Needed: 2000, Max: 1024}, {Needed: 500, Max: 0}, {Needed: 300000, Max: -1}},
			N:      c.N(150, 1500), Gen: c12PoolGen, Check: c12PoolCheck, Batch: 100,
		})
	})
}
