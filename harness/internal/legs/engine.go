package legs

import (
	"encoding/hex"
	"fmt"
	"math/rand"
	"os"
	"path/filepath"
	"regexp"
	"strings"
	"sync"
	"time"

	"rvharness/internal/gen"

	regexp2 "github.com/dlclark/regexp2/v2"
	"github.com/dlclark/regexp2/v2/syntax"
)

// engCase is one point for the model-free engine oracles (C02, C03, C04, C05, C10): a pattern as
// text, regex options, compile options, an input (runes, or raw bytes in hex when it is a string with
// invalid UTF-8) and a start offset.
type engCase struct {
	Pattern  string `json:"pattern"`
	Opts     int32  `json:"opts"`
	CodeGen  bool   `json:"codegen,omitempty"`
	NoBitmap bool   `json:"nobitmap,omitempty"`
	Text     []rune `json:"text"`
	RawHex   string `json:"raw_hex,omitempty"` // when set: the input string (may be invalid UTF-8); Text = []rune(raw)
	Start    int    `json:"start"`
	Source   string `json:"source,omitempty"` // "ast" | "harvest" | "corpus" | "mutated"
}

func (c *engCase) str() string {
	if c.RawHex != "" {
		b, _ := hex.DecodeString(c.RawHex)
		return string(b)
	}
	return string(c.Text)
}

func (c *engCase) compileOpts() []regexp2.CompileOption {
	o := []regexp2.CompileOption{regexp2.RegexOptions(c.Opts)}
	if c.CodeGen {
		o = append(o, regexp2.OptionIsCodeGen())
	}
	if c.NoBitmap {
		o = append(o, regexp2.OptionDisableCharClassASCIIBitmap())
	}
	return o
}

func (c *engCase) rtl() bool { return regexp2.RegexOptions(c.Opts)&regexp2.RightToLeft != 0 }

type engCompiled struct {
	re  *regexp2.Regexp
	err error
}

// engCache compiles each (pattern, options) once per batch.
type engCache struct {
	m map[string]*engCompiled
}

func newEngCache() *engCache { return &engCache{m: map[string]*engCompiled{}} }

func (ec *engCache) get(c *engCase) *engCompiled {
	key := fmt.Sprintf("%d|%v|%v|%s", c.Opts, c.CodeGen, c.NoBitmap, c.Pattern)
	if e, ok := ec.m[key]; ok {
		return e
	}
	re, err := safeCompile(c.Pattern, c.compileOpts()...)
	if re != nil {
		re.MatchTimeout = 2 * time.Second
	}
	e := &engCompiled{re: re, err: err}
	ec.m[key] = e
	return e
}

// safeCompile turns a panic inside Compile into an error value tagged as a panic.
type panicError struct{ v any }

func (p panicError) Error() string { return fmt.Sprintf("PANIC: %v", p.v) }

func safeCompile(pat string, opts ...regexp2.CompileOption) (re *regexp2.Regexp, err error) {
	defer func() {
		if r := recover(); r != nil {
			re, err = nil, panicError{r}
		}
	}()
	return regexp2.Compile(pat, opts...)
}

// renderFull renders a match with every group in slot order (works for sparse numbering, balancing
// groups etc.): (none) | (ok idx len (name (i l)…)…)
func renderFull(m *regexp2.Match) string {
	if m == nil {
		return "(none)"
	}
	var b strings.Builder
	fmt.Fprintf(&b, "(ok %d %d", m.RuneIndex, m.RuneLength)
	for _, g := range m.Groups()[1:] {
		fmt.Fprintf(&b, " (%s", g.Name)
		for _, c := range g.Captures {
			fmt.Fprintf(&b, " (%d %d)", c.RuneIndex, c.RuneLength)
		}
		b.WriteByte(')')
	}
	b.WriteByte(')')
	return b.String()
}

func renderErr(m *regexp2.Match, err error) string {
	if err != nil {
		if err == regexp2.ErrBacktrackingStackLimit {
			return "(stack-limit)"
		}
		if strings.HasPrefix(err.Error(), "match timeout") {
			return "(timeout)"
		}
		return "(error " + err.Error() + ")"
	}
	return renderFull(m)
}

// ---------------------------------------------------------------------------------------------
// generators

var fullAlphabet = []rune{'a', 'b', 'c', 'A', 'B', 'x', 'y', '1', '2', ' ', '-', '_', '\n', '[', '{', '@', '`', 'é', 'É', 'α', 'Α', 'я', 'k', 's', 0x212A, 0x301, 0xFFFD, 0x1F600, 0x1F601}

var allOptionBits = []regexp2.RegexOptions{regexp2.IgnoreCase, regexp2.Multiline, regexp2.ExplicitCapture, regexp2.Singleline,
	regexp2.IgnorePatternWhitespace, regexp2.RightToLeft, regexp2.ECMAScript, regexp2.RE2, regexp2.Unicode}

func randRegexOptions(rng *rand.Rand, allowRTL bool) (regexp2.RegexOptions, gen.Opts) {
	var o gen.Opts
	if rng.Intn(3) != 0 {
		o.I = rng.Intn(4) == 0
		o.M = rng.Intn(4) == 0
		o.S = rng.Intn(4) == 0
		o.N = rng.Intn(6) == 0
		o.X = rng.Intn(6) == 0
		o.RE2 = rng.Intn(8) == 0
		o.RTL = allowRTL && rng.Intn(5) == 0
	}
	r := regexOptions(o)
	if !o.RE2 && rng.Intn(10) == 0 {
		r |= regexp2.ECMAScript
		// ECMAScript is only compatible with IgnoreCase and Multiline
		r &^= regexp2.Singleline | regexp2.ExplicitCapture | regexp2.IgnorePatternWhitespace | regexp2.RightToLeft
		o.S, o.N, o.X, o.RTL = false, false, false, false
	}
	return r, o
}

// fullConfig: the full syntax (nullable loops, \G, balancing groups, Unicode classes, conditionals…).
func fullConfig(rng *rand.Rand, o gen.Opts) gen.Config {
	return gen.Config{MaxDepth: 1 + rng.Intn(4), Opts: o, Backrefs: !o.RE2, Lookaround: true, Atomic: true, Conditionals: !o.RE2,
		Named: true, Anchors: true, LazyQuant: true, AllowNullableQuant: true, Balancing: !o.RE2, UnicodeCats: true, Alphabet: fullAlphabet}
}

var hugeRepeat = regexp.MustCompile(`\{\d{4,}|\{\d*,\d{4,}`)

var (
	harvestOnce sync.Once
	harvested   []string // literals from the repo's tests and corpora that compile as patterns
	harvestedIn []string // all literals (usable as inputs)
)

func repoRoot() string {
	if r := os.Getenv("VERIF_REPO"); r != "" {
		return r
	}
	return "/repo"
}

func loadHarvest() {
	harvestOnce.Do(func() {
		lits := gen.Harvest(repoRoot(), 200)
		// corpus files: quoted strings in the toml / text corpora
		q := regexp.MustCompile(`'([^'\n]{1,120})'|"((?:[^"\\\n]|\\.){1,120})"`)
		_ = filepath.Walk(filepath.Join(repoRoot(), "testdata"), func(p string, info os.FileInfo, err error) error {
			if err != nil || info.IsDir() || info.Size() > 4<<20 {
				return nil
			}
			b, err := os.ReadFile(p)
			if err != nil {
				return nil
			}
			n := 0
			for _, m := range q.FindAllSubmatch(b, -1) {
				s := string(m[1])
				if s == "" {
					s = string(m[2])
				}
				lits = append(lits, s)
				if n++; n > 4000 {
					break
				}
			}
			return nil
		})
		seen := map[string]bool{}
		for _, s := range lits {
			if seen[s] {
				continue
			}
			seen[s] = true
			harvestedIn = append(harvestedIn, s)
			if hugeRepeat.MatchString(s) {
				continue // a{2147482647}-style limit tests: minutes of matching, nothing to learn here
			}
			if strings.Contains(s, `\B`) {
				continue // keeps the carried finding KF2 (non-word loop made atomic before \B) out of the random streams
			}
			if re, err := safeCompile(s); err == nil && re != nil {
				harvested = append(harvested, s)
			}
		}
	})
}

// engGen produces cases: 70% random full-syntax ASTs (several inputs each), 30% harvested patterns.
type engGen struct {
	allowRTL    bool
	perPat      int
	maxLen      int
	rawInput    bool // also produce string inputs with invalid UTF-8
	biasFind    bool // bias towards shapes the search modes recognise
	biasRewrite bool // bias towards shapes the tree rewrites look for
	queue       []engCase
}

func (g *engGen) next(rng *rand.Rand, i int) engCase {
	for len(g.queue) == 0 {
		g.fill(rng)
	}
	c := g.queue[len(g.queue)-1]
	g.queue = g.queue[:len(g.queue)-1]
	return c
}

func (g *engGen) fill(rng *rand.Rand) {
	loadHarvest()
	ro, o := randRegexOptions(rng, g.allowRTL)
	var pat string
	var inputs [][]rune
	source := "ast"
	if rng.Intn(10) < 3 && len(harvested) > 0 {
		pat = harvested[rng.Intn(len(harvested))]
		source = "harvest"
		// inputs: harvested literals, pieces of the pattern itself, random alphabet strings
		for k := 0; k < g.perPat; k++ {
			var s []rune
			switch rng.Intn(3) {
			case 0:
				s = []rune(harvestedIn[rng.Intn(len(harvestedIn))])
			case 1:
				s = []rune(strings.NewReplacer(`\`, "", "(", "", ")", "", "[", "", "]", "", "*", "", "+", "", "?", "", "|", "", "^", "", "$", "").Replace(pat))
			default:
				for j := rng.Intn(g.maxLen); j > 0; j-- {
					s = append(s, fullAlphabet[rng.Intn(len(fullAlphabet))])
				}
			}
			if len(s) > 3*g.maxLen {
				s = s[:3*g.maxLen]
			}
			inputs = append(inputs, s)
		}
	} else if rng.Intn(12) == 0 {
		pat, inputs = sparseNumbered(rng, g.perPat)
		source = "sparse"
	} else {
		cfg := fullConfig(rng, o)
		var ast *gen.Node
		if g.biasFind && rng.Intn(2) == 0 {
			ast = biasedAst(rng, cfg)
		} else if g.biasRewrite && rng.Intn(3) != 0 {
			ast = rewriteAst(rng, cfg)
		} else {
			ast = gen.Random(rng, cfg)
		}
		pat = ast.Print(o)
		inputs = gen.Inputs(rng, ast, g.perPat, g.maxLen)
	}
	codegen := rng.Intn(3) == 0
	nobitmap := rng.Intn(4) == 0
	for _, in := range inputs {
		c := engCase{Pattern: pat, Opts: int32(ro), CodeGen: codegen, NoBitmap: nobitmap, Text: in, Source: source}
		if ro&regexp2.RightToLeft != 0 {
			c.Start = len(in)
		}
		if rng.Intn(3) == 0 {
			c.Start = rng.Intn(len(in) + 1)
		}
		if g.rawInput && rng.Intn(4) == 0 {
			// splice invalid bytes into the string form
			b := []byte(string(in))
			for k := 1 + rng.Intn(2); k > 0; k-- {
				p := rng.Intn(len(b) + 1)
				b = append(b[:p], append([]byte{[]byte{0xff, 0xc3, 0x80, 0xe2}[rng.Intn(4)]}, b[p:]...)...)
			}
			c.RawHex = hex.EncodeToString(b)
			c.Text = []rune(string(b))
			c.Start = 0
		}
		g.queue = append(g.queue, c)
	}
}

// sparseNumbered builds patterns whose groups carry explicit, non-contiguous numbers ((?<2>a+)(?<5>b+)\2) and
// are observed by a backreference or a conditional: the user number and the dense slot of a group differ, so
// anything indexed by the wrong one of the two (slot tables of the writer, capture liveness of the bool-only
// program, replacement slots) shows. The random AST generator numbers its groups densely and never gets here.
func sparseNumbered(rng *rand.Rand, perPat int) (string, [][]rune) {
	atoms := [][2]string{{"a+", "aa"}, {"b+", "bb"}, {"a", "a"}, {"b", "b"}, {"[ab]", "b"}, {"a*", "a"}, {"c?", "c"}, {"ab", "ab"}}
	nums := rng.Perm(7)
	k := 2 + rng.Intn(2)
	var pat, sample strings.Builder
	type grp struct {
		num  int
		text string
	}
	var gs []grp
	for j := 0; j < k; j++ {
		a := atoms[rng.Intn(len(atoms))]
		if rng.Intn(4) == 0 {
			pat.WriteString("(" + a[0] + ")")
			sample.WriteString(a[1])
			continue
		}
		n := nums[j] + 1
		fmt.Fprintf(&pat, "(?<%d>%s)", n, a[0])
		sample.WriteString(a[1])
		gs = append(gs, grp{n, a[1]})
	}
	for j := 1 + rng.Intn(2); j > 0 && len(gs) > 0; j-- {
		g := gs[rng.Intn(len(gs))]
		switch rng.Intn(4) {
		case 0:
			fmt.Fprintf(&pat, "\\%d", g.num)
			sample.WriteString(g.text)
		case 1:
			fmt.Fprintf(&pat, "\\k<%d>", g.num)
			sample.WriteString(g.text)
		case 2:
			fmt.Fprintf(&pat, "(?(%d)a|b)", g.num)
			sample.WriteString("a")
		default:
			fmt.Fprintf(&pat, "(?:x|\\%d)", g.num)
			sample.WriteString(g.text)
		}
	}
	var inputs [][]rune
	hit := sample.String()
	for j := 0; j < perPat; j++ {
		var sb strings.Builder
		switch j % 3 {
		case 0:
			sb.WriteString([]string{"", "xx ", "ab", "b"}[rng.Intn(4)] + hit + []string{"", " yy", "a", " " + hit}[rng.Intn(4)])
		case 1:
			r := []rune(hit)
			if len(r) > 0 {
				r[rng.Intn(len(r))] = []rune("abcx")[rng.Intn(4)]
			}
			sb.WriteString("x" + string(r) + " " + hit)
		default:
			for n := rng.Intn(10); n > 0; n-- {
				sb.WriteByte("aabbc x"[rng.Intn(7)])
			}
		}
		inputs = append(inputs, []rune(sb.String()))
	}
	return pat.String(), inputs
}

// biasedAst builds the shapes each candidate-search mode recognises: literal prefixes, alternations of
// literals, a set at a fixed offset, literal after a leading loop, leading/trailing anchors, fixed length.
func biasedAst(rng *rand.Rand, cfg gen.Config) *gen.Node {
	lit := func(s string) *gen.Node {
		q := &gen.Node{Kind: gen.KSeq}
		for _, r := range s {
			q.Subs = append(q.Subs, &gen.Node{Kind: gen.KLit, Ch: r})
		}
		return q
	}
	words := []string{"ab", "abc", "bca", "xy", "a1", "Ab", "éa", "ba", "aab", "-a", "bc", "abcd", "xbcy", "ca", "bcab", "éb", "αa", "\U0001F601a", "aa", "aba", "abab"}
	w := func() string { return words[rng.Intn(len(words))] }
	cfg.MaxDepth = 1 + rng.Intn(2)
	tail := gen.Random(rng, cfg)
	var head *gen.Node
	switch rng.Intn(18) {
	case 0: // leading string
		head = lit(w())
	case 1: // leading strings
		head = &gen.Node{Kind: gen.KGroup, Subs: []*gen.Node{{Kind: gen.KAlt, Subs: []*gen.Node{lit(w()), lit(w()), lit(w())}}}}
		if rng.Intn(2) == 0 {
			// an earlier, shorter alternative that occurs strictly inside a later, longer one
			inner := w()
			outer := string("xyzb1"[rng.Intn(5)]) + inner + string("xyza2"[rng.Intn(5)])
			alts := []*gen.Node{lit(inner), lit(outer)}
			if rng.Intn(2) == 0 {
				alts = append(alts, lit(w()))
			}
			head = &gen.Node{Kind: gen.KGroup, Subs: []*gen.Node{{Kind: gen.KAlt, Subs: alts}}}
		}
	case 2: // set then literal at fixed distance
		head = &gen.Node{Kind: gen.KSeq, Subs: []*gen.Node{{Kind: gen.KClass, Class: &gen.Class{Items: []gen.ClassItem{{Lo: 'a', Hi: 'c'}}}}, {Kind: gen.KDot}, lit(w())}}
	case 3: // literal after a leading loop
		loopSet := [][]gen.ClassItem{{{Lo: 'a', Hi: 'b'}, {Short: 's'}}, {{Short: 'd'}}, {{Lo: 'x', Hi: 'y'}}, {{Short: 'd'}, {Lo: '-', Hi: '-'}}}[rng.Intn(4)]
		after := lit(w())
		if rng.Intn(2) == 0 {
			// the literal as the body of a loop that has to run at least once
			after = &gen.Node{Kind: gen.KQuant, Lo: 1, Hi: []int{-1, 2}[rng.Intn(2)], Subs: []*gen.Node{{Kind: gen.KGroup, Subs: []*gen.Node{after}}}}
		}
		head = &gen.Node{Kind: gen.KSeq, Subs: []*gen.Node{{Kind: gen.KQuant, Lo: rng.Intn(2), Hi: -1, Subs: []*gen.Node{{Kind: gen.KClass, Class: &gen.Class{Items: loopSet}}}}, after}}
	case 4: // leading anchor
		head = &gen.Node{Kind: gen.KSeq, Subs: []*gen.Node{{Kind: gen.KAnchor, Anchor: []string{"A", "G", "^", "z", "Z"}[rng.Intn(5)]}, lit(w())}}
	case 16: // branches of one fixed length that end (or begin) in different anchors
		anc := func() *gen.Node {
			return &gen.Node{Kind: gen.KAnchor, Anchor: []string{"z", "z", "Z", "$", "b", "B"}[rng.Intn(6)]}
		}
		ws := []string{"ab", "cd", "xy", "ba", "a1", "bc"}
		br := func() *gen.Node {
			if rng.Intn(4) == 0 {
				return &gen.Node{Kind: gen.KSeq, Subs: []*gen.Node{{Kind: gen.KAnchor, Anchor: []string{"A", "^", "b", "G"}[rng.Intn(4)]}, lit(ws[rng.Intn(len(ws))])}}
			}
			return &gen.Node{Kind: gen.KSeq, Subs: []*gen.Node{lit(ws[rng.Intn(len(ws))]), anc()}}
		}
		alts := []*gen.Node{br(), br()}
		if rng.Intn(3) == 0 {
			alts = append(alts, br())
		}
		return &gen.Node{Kind: gen.KAlt, Subs: alts}
	case 5: // fixed length + trailing anchor
		return &gen.Node{Kind: gen.KSeq, Subs: []*gen.Node{lit(w()), {Kind: gen.KDot}, {Kind: gen.KAnchor, Anchor: []string{"z", "Z", "$"}[rng.Intn(3)]}}}
	case 6: // single char at fixed distance (U+FFFD: the rune every invalid byte of a string input decodes to)
		head = &gen.Node{Kind: gen.KSeq, Subs: []*gen.Node{{Kind: gen.KDot}, {Kind: gen.KDot}, {Kind: gen.KLit, Ch: []rune{'a', 'a', 0xFFFD, 'é'}[rng.Intn(4)]}}}
		if rng.Intn(2) == 0 {
			head.Subs = head.Subs[1:]
		}
	case 7: // leading loop for bump-along
		head = &gen.Node{Kind: gen.KSeq, Subs: []*gen.Node{{Kind: gen.KQuant, Lo: rng.Intn(2), Hi: -1, Lazy: rng.Intn(3) == 0, Subs: []*gen.Node{{Kind: gen.KShort, Short: "wsd"[rng.Intn(3)]}}}, lit(w())}}
	case 8: // landmark chain: a leading set loop, then literals / bounded set runs / alternations of those, optional whitespace between
		cls := func() *gen.Node {
			sets := [][]gen.ClassItem{{{Lo: 'a', Hi: 'c'}}, {{Lo: 'b', Hi: 'b'}, {Lo: 'x', Hi: 'x'}}, {{Short: 'd'}}, {{Lo: 'b', Hi: 'c'}}}
			return &gen.Node{Kind: gen.KClass, Class: &gen.Class{Items: sets[rng.Intn(len(sets))]}}
		}
		item := func() *gen.Node {
			switch rng.Intn(4) {
			case 0:
				return lit(w())
			case 1:
				lo := 1 + rng.Intn(2)
				return &gen.Node{Kind: gen.KQuant, Lo: lo, Hi: lo + rng.Intn(3), Lazy: rng.Intn(3) == 0, Subs: []*gen.Node{cls()}}
			case 2:
				// alternatives of a landmark, some with mandatory or optional whitespace around their core
				ws := func(core *gen.Node) *gen.Node {
					sp := func() *gen.Node {
						return &gen.Node{Kind: gen.KQuant, Lo: rng.Intn(2), Hi: -1, Subs: []*gen.Node{{Kind: gen.KShort, Short: 's'}}}
					}
					switch rng.Intn(4) {
					case 0:
						return &gen.Node{Kind: gen.KSeq, Subs: []*gen.Node{sp(), core, sp()}}
					case 1:
						return &gen.Node{Kind: gen.KSeq, Subs: []*gen.Node{core, sp()}}
					}
					return core
				}
				return &gen.Node{Kind: gen.KGroup, Subs: []*gen.Node{{Kind: gen.KAlt, Subs: []*gen.Node{ws(lit(w())), ws(cls()), ws(lit(w()[:1]))}}}}
			default:
				return cls()
			}
		}
		loopSets := []byte{'s', 'w', 'd'}
		parts := []*gen.Node{{Kind: gen.KQuant, Lo: rng.Intn(2), Hi: -1, Subs: []*gen.Node{{Kind: gen.KShort, Short: loopSets[rng.Intn(3)]}}}}
		if rng.Intn(3) == 0 {
			parts[0].Subs[0] = &gen.Node{Kind: gen.KDot}
		}
		for k := 2 + rng.Intn(2); k > 0; k-- {
			if k == 1 && rng.Intn(2) == 0 {
				// a landmark with an alternative that demands whitespace after its core
				sp1 := func() *gen.Node {
					return &gen.Node{Kind: gen.KQuant, Lo: 1, Hi: -1, Subs: []*gen.Node{{Kind: gen.KShort, Short: 's'}}}
				}
				parts = append(parts, &gen.Node{Kind: gen.KGroup, Subs: []*gen.Node{{Kind: gen.KAlt, Subs: []*gen.Node{
					{Kind: gen.KSeq, Subs: []*gen.Node{sp1(), lit(w()), sp1()}}, lit(w()[:1])}}}})
				parts = append(parts, cls())
				continue
			}
			parts = append(parts, item())
			if rng.Intn(3) == 0 {
				parts = append(parts, &gen.Node{Kind: gen.KQuant, Lo: rng.Intn(2), Hi: -1, Subs: []*gen.Node{{Kind: gen.KShort, Short: 's'}}})
			}
		}
		head = &gen.Node{Kind: gen.KSeq, Subs: parts}
	case 9: // a counted repetition around the analysers' expansion limits (20 / 32 / 64), then fixed content
		counts := []int{2, 5, 19, 20, 21, 24, 31, 32, 33, 40, 64, 65, 70}
		k := counts[rng.Intn(len(counts))]
		var body *gen.Node
		switch rng.Intn(3) {
		case 0:
			body = &gen.Node{Kind: gen.KLit, Ch: 'a'}
		case 1:
			body = &gen.Node{Kind: gen.KClass, Class: &gen.Class{Items: []gen.ClassItem{{Lo: 'a', Hi: 'b'}}}}
		default:
			body = &gen.Node{Kind: gen.KShort, Short: "dw"[rng.Intn(2)]}
		}
		hi := k
		if rng.Intn(4) == 0 {
			hi = k + rng.Intn(3)
		}
		q := &gen.Node{Kind: gen.KQuant, Lo: k, Hi: hi, Subs: []*gen.Node{body}}
		parts := []*gen.Node{q, lit([]string{"c", ".x", "-id", "cb"}[rng.Intn(4)])}
		if rng.Intn(3) == 0 {
			parts = append([]*gen.Node{{Kind: gen.KClass, Class: &gen.Class{Items: []gen.ClassItem{{Lo: 'x', Hi: 'y'}}}}}, parts...)
		}
		if rng.Intn(4) == 0 {
			parts[len(parts)-2] = &gen.Node{Kind: gen.KCap, Subs: []*gen.Node{q}}
		}
		head = &gen.Node{Kind: gen.KSeq, Subs: parts}
	case 10, 11: // what the ordinal-ignore-case prefix analysis looks at: two-character classes (real case pairs and
		// look-alikes: ASCII non-letters 0x20 apart, letters with a third fold partner) and caseless literals
		pairs := [][2]rune{{'A', 'a'}, {'B', 'b'}, {'[', '{'}, {']', '}'}, {'\\', '|'}, {'^', '~'}, {'@', '`'}, {'_', 0x7f}, {'K', 'k'}, {'S', 's'}, {'k', 0x212A}, {'1', 'Q'}, {'É', 'é'}, {'-', '\r'}}
		if !strings.ContainsRune(string(cfg.Alphabet), 'k') {
			// the specification legs define case-insensitivity for plain upper/lower pairs only: no k, s (their
			// fold orbits have a third member, and RE2+IgnoreCase folds them into \W: known finding KF1)
			pairs = [][2]rune{{'A', 'a'}, {'B', 'b'}, {'[', '{'}, {']', '}'}, {'\\', '|'}, {'^', '~'}, {'@', '`'}, {'_', 0x7f}, {'1', 'Q'}, {'É', 'é'}, {'-', '\r'}}
		}
		caseless := []rune{',', '"', ':', '.', ';', '1', ' ', '-', '_', '@', '['}
		var parts []*gen.Node
		for k := 2 + rng.Intn(3); k > 0; k-- {
			if rng.Intn(2) == 0 {
				pr := pairs[rng.Intn(len(pairs))]
				items := []gen.ClassItem{{Lo: pr[0], Hi: pr[0]}, {Lo: pr[1], Hi: pr[1]}}
				if rng.Intn(2) == 0 {
					items[0], items[1] = items[1], items[0]
				}
				parts = append(parts, &gen.Node{Kind: gen.KClass, Class: &gen.Class{Items: items}})
			} else if rng.Intn(3) == 0 {
				parts = append(parts, &gen.Node{Kind: gen.KLit, Ch: pairs[rng.Intn(len(pairs))][rng.Intn(2)]})
			} else {
				parts = append(parts, &gen.Node{Kind: gen.KLit, Ch: caseless[rng.Intn(len(caseless))]})
			}
		}
		head = &gen.Node{Kind: gen.KSeq, Subs: parts}
		if rng.Intn(4) == 0 {
			head = &gen.Node{Kind: gen.KSeq, Subs: []*gen.Node{{Kind: gen.KQuant, Lo: rng.Intn(2), Hi: -1, Subs: []*gen.Node{{Kind: gen.KShort, Short: 'w'}}}, head}}
		}
	case 12, 13: // a literal (or a one-or-more loop of one character) right before a trailing anchor: the anchored
		// prefix search, and right-to-left the place where $ and \Z have two legal positions
		var pre *gen.Node
		if rng.Intn(3) == 0 {
			pre = &gen.Node{Kind: gen.KQuant, Lo: 1, Hi: -1, Subs: []*gen.Node{{Kind: gen.KLit, Ch: 'a'}}}
		} else {
			pre = lit(w())
		}
		if rng.Intn(4) == 0 {
			pre = &gen.Node{Kind: gen.KCap, Subs: []*gen.Node{pre}}
		}
		root := &gen.Node{Kind: gen.KSeq, Subs: []*gen.Node{tail, pre, {Kind: gen.KAnchor, Anchor: []string{"z", "Z", "$", "$"}[rng.Intn(4)]}}}
		if rng.Intn(2) == 0 {
			root.Subs = root.Subs[1:]
		}
		gen.AssignGroups(root, cfg.Opts)
		gen.AvoidKnownFindings(root)
		return root
	default: // positive lookahead in front
		head = &gen.Node{Kind: gen.KLook, Subs: []*gen.Node{lit(w())}}
	}
	root := &gen.Node{Kind: gen.KSeq, Subs: []*gen.Node{head, tail}}
	gen.AssignGroups(root, cfg.Opts)
	gen.AvoidKnownFindings(root)
	return root
}

// findModeName names the candidate-search mode the compiler chose (for the evidence histogram).
func findModeName(re *regexp2.Regexp) string {
	c := regexp2.VerifCode(re)
	if c == nil || c.FindOptimizations == nil {
		return "mode=none"
	}
	m := c.FindOptimizations.FindMode.String()
	if c.BmPrefix != nil {
		m += "+bm"
	}
	if c.FcPrefix != nil {
		m += "+fc"
	}
	if c.Anchors != 0 {
		m += "+anchors"
	}
	return "mode=" + m
}

var _ = syntax.NoSearch

// rewriteAst builds the shapes the rewrites of tree.go look for: a char/set loop followed by
// (optional loops of) overlapping or disjoint items, alternations with shared prefixes, atomic
// alternations, loops at the end of atomic / lookaround / conditional contexts, leading loops
// (bump-along), optionally followed by a back-reference that observes lost backtracking.
func rewriteAst(rng *rand.Rand, cfg gen.Config) *gen.Node {
	sets := [][]gen.ClassItem{
		{{Lo: 'a', Hi: 'b'}}, {{Lo: 'b', Hi: 'c'}}, {{Lo: 'a', Hi: 'c'}}, {{Lo: 'c', Hi: 'c'}, {Lo: 'x', Hi: 'x'}},
		{{Short: 'w'}}, {{Short: 'd'}}, {{Short: 's'}}, {{Short: 'W'}}, {{Lo: '1', Hi: '2'}, {Lo: 'a', Hi: 'a'}},
	}
	single := func() *gen.Node {
		switch rng.Intn(5) {
		case 0:
			return &gen.Node{Kind: gen.KLit, Ch: []rune{'a', 'b', 'c', '1', ' ', '\n'}[rng.Intn(6)]}
		case 1:
			return &gen.Node{Kind: gen.KDot}
		case 2:
			return &gen.Node{Kind: gen.KShort, Short: "wdsWDS"[rng.Intn(6)]}
		default:
			return &gen.Node{Kind: gen.KClass, Class: &gen.Class{Neg: rng.Intn(5) == 0, Items: sets[rng.Intn(len(sets))]}}
		}
	}
	loop := func() *gen.Node {
		q := &gen.Node{Kind: gen.KQuant, Hi: -1, Lazy: rng.Intn(4) == 0, Style: rng.Intn(6), Subs: []*gen.Node{single()}}
		switch rng.Intn(5) {
		case 0:
			q.Lo = 1
		case 1:
			q.Lo, q.Hi = 0, 1
		case 2:
			q.Lo, q.Hi = 1, 3
		}
		return q
	}
	lit := func(s string) *gen.Node {
		q := &gen.Node{Kind: gen.KSeq}
		for _, r := range s {
			q.Subs = append(q.Subs, &gen.Node{Kind: gen.KLit, Ch: r})
		}
		return q
	}
	words := []string{"ab", "abc", "abd", "a", "b", "ac", "bc", "ba", "aab", "c"}
	alt := func() *gen.Node {
		a := &gen.Node{Kind: gen.KAlt}
		if rng.Intn(2) == 0 {
			// branches that begin with the same one-character node or loop (what the prefix factoring of
			// alternations looks for), with equal and with slightly different repeat counts, lazy or not
			var head *gen.Node
			switch rng.Intn(4) {
			case 0:
				head = &gen.Node{Kind: gen.KLit, Ch: 'a'}
			case 1:
				head = &gen.Node{Kind: gen.KShort, Short: "dw"[rng.Intn(2)]}
			case 2:
				head = &gen.Node{Kind: gen.KClass, Class: &gen.Class{Neg: true, Items: []gen.ClassItem{{Lo: 'c', Hi: 'c'}}}}
			default:
				head = &gen.Node{Kind: gen.KClass, Class: &gen.Class{Items: []gen.ClassItem{{Lo: 'a', Hi: 'b'}}}}
			}
			lo := 1 + rng.Intn(2)
			counts := [][2]int{{lo, lo}, {lo, lo}, {lo, lo + 1 + rng.Intn(2)}, {lo, -1}, {lo + 1, lo + 1}, {1, 1}}
			lazyAll := rng.Intn(5) == 0
			for k := 2 + rng.Intn(2); k > 0; k-- {
				c := counts[rng.Intn(len(counts))]
				var h *gen.Node
				if c[0] == 1 && c[1] == 1 && rng.Intn(2) == 0 {
					cp := *head
					h = &cp
				} else {
					cp := *head
					h = &gen.Node{Kind: gen.KQuant, Lo: c[0], Hi: c[1], Lazy: lazyAll || rng.Intn(8) == 0, Subs: []*gen.Node{&cp}}
				}
				rest := lit(words[rng.Intn(len(words))])
				if rng.Intn(4) == 0 {
					rest = &gen.Node{Kind: gen.KCap, Subs: []*gen.Node{rest}}
				}
				a.Subs = append(a.Subs, &gen.Node{Kind: gen.KSeq, Subs: []*gen.Node{h, rest}})
			}
			return &gen.Node{Kind: gen.KGroup, Subs: []*gen.Node{a}}
		}
		for k := 2 + rng.Intn(3); k > 0; k-- {
			if rng.Intn(10) == 0 {
				a.Subs = append(a.Subs, &gen.Node{Kind: gen.KEmpty})
			} else {
				a.Subs = append(a.Subs, lit(words[rng.Intn(len(words))]))
			}
		}
		return &gen.Node{Kind: gen.KGroup, Subs: []*gen.Node{a}}
	}
	var parts []*gen.Node
	capFirst := rng.Intn(3) == 0
	for k := 2 + rng.Intn(3); k > 0; k-- {
		var x *gen.Node
		switch rng.Intn(12) {
		case 0, 1, 2, 3:
			x = loop()
		case 11:
			// a word next to a loop over the word's first or last character, in either order (what the
			// concatenation reducer folds into the loop: the adjacent end of the word depends on the direction)
			w := []rune([]string{"ab", "abc", "aαa", "aba", "αa", "ba", "aab", "baa", "abca", "a\U0001F601"}[rng.Intn(10)])
			ch := w[0]
			if rng.Intn(2) == 0 {
				ch = w[len(w)-1]
			}
			lo := rng.Intn(3)
			l := &gen.Node{Kind: gen.KQuant, Lo: lo, Hi: []int{-1, -1, lo + 2}[rng.Intn(3)], Lazy: rng.Intn(4) == 0, Subs: []*gen.Node{{Kind: gen.KLit, Ch: ch}}}
			if rng.Intn(3) == 0 {
				// an explicitly atomic run must not take part in the folding
				l = &gen.Node{Kind: gen.KAtomic, Subs: []*gen.Node{l}}
			}
			if rng.Intn(2) == 0 {
				x = &gen.Node{Kind: gen.KSeq, Subs: []*gen.Node{lit(string(w)), l}}
			} else {
				x = &gen.Node{Kind: gen.KSeq, Subs: []*gen.Node{l, lit(string(w))}}
			}
		case 4:
			x = single()
		case 5, 9:
			x = alt()
		case 10:
			// a counted group that has to iterate, its body a loop followed by a word: what may follow the last
			// node of the body is the first node of the next iteration (bare, atomic, or in a lookaround)
			body := &gen.Node{Kind: gen.KSeq, Subs: []*gen.Node{loop(), lit(words[rng.Intn(len(words))])}}
			if rng.Intn(2) == 0 {
				// the loop's character is the last one of the word and not its first: disjoint from what follows it
				// when read left to right, overlapping when read right to left
				w := []string{"ba", "bca", "ca", "cba", "1a", "ab", "acb", "cab"}[rng.Intn(8)]
				last := []rune(w)[len([]rune(w))-1]
				body = &gen.Node{Kind: gen.KSeq, Subs: []*gen.Node{{Kind: gen.KQuant, Lo: rng.Intn(2), Hi: -1, Lazy: rng.Intn(5) == 0, Subs: []*gen.Node{{Kind: gen.KLit, Ch: last}}}, lit(w)}}
			}
			if rng.Intn(3) == 0 {
				body.Subs = append(body.Subs, &gen.Node{Kind: gen.KAnchor, Anchor: []string{"$", "z", "Z", "b"}[rng.Intn(4)]})
			}
			if rng.Intn(4) == 0 {
				body.Subs[0], body.Subs[1] = body.Subs[1], body.Subs[0]
			}
			lo := 1 + rng.Intn(2)
			x = &gen.Node{Kind: gen.KQuant, Lo: lo, Hi: []int{lo, lo + 1, -1}[rng.Intn(3)], Lazy: rng.Intn(6) == 0, Subs: []*gen.Node{{Kind: gen.KGroup, Subs: []*gen.Node{body}}}}
			switch rng.Intn(5) {
			case 0:
				x = &gen.Node{Kind: gen.KAtomic, Subs: []*gen.Node{x}}
			case 1:
				x = &gen.Node{Kind: gen.KLook, Behind: true, Neg: rng.Intn(4) == 0, Subs: []*gen.Node{x}}
			case 2:
				x = &gen.Node{Kind: gen.KLook, Behind: false, Neg: rng.Intn(4) == 0, Subs: []*gen.Node{x}}
			}
		case 6:
			x = &gen.Node{Kind: gen.KAtomic, Subs: []*gen.Node{[]*gen.Node{alt(), loop(), {Kind: gen.KSeq, Subs: []*gen.Node{loop(), loop()}}}[rng.Intn(3)]}}
		case 7:
			x = &gen.Node{Kind: gen.KLook, Behind: rng.Intn(2) == 0, Neg: rng.Intn(3) == 0, Subs: []*gen.Node{{Kind: gen.KSeq, Subs: []*gen.Node{loop(), single()}}}}
			if capFirst && len(parts) > 0 && rng.Intn(2) == 0 {
				// a lookaround whose body refers back to the first capture (right to left inside a lookbehind)
				x.Subs[0].Subs = append(x.Subs[0].Subs, &gen.Node{Kind: gen.KRef, Group: 1, Style: 0})
				if rng.Intn(2) == 0 {
					x.Subs[0].Subs[0], x.Subs[0].Subs[2] = x.Subs[0].Subs[2], x.Subs[0].Subs[0]
				}
			}
		default:
			x = &gen.Node{Kind: gen.KAnchor, Anchor: []string{"b", "$", "z", "Z", "^"}[rng.Intn(5)]}
		}
		if capFirst && len(parts) == 0 {
			if rng.Intn(3) == 0 {
				// a leading capture whose body begins with an unbounded loop (where a bump-along marker must not
				// go: a back-reference to the group can make a start position inside the loop's span succeed)
				l := &gen.Node{Kind: gen.KQuant, Lo: rng.Intn(2), Hi: -1, Subs: []*gen.Node{single()}}
				x = &gen.Node{Kind: gen.KSeq, Subs: []*gen.Node{l, {Kind: gen.KLit, Ch: []rune{'b', ' ', 'a', 'c'}[rng.Intn(4)]}}}
			}
			x = &gen.Node{Kind: gen.KCap, Subs: []*gen.Node{x}}
		}
		parts = append(parts, x)
	}
	if capFirst && rng.Intn(2) == 0 {
		parts = append(parts, &gen.Node{Kind: gen.KRef, Group: 1, Style: 0})
	}
	if rng.Intn(3) == 0 {
		cfg.MaxDepth = 1
		parts = append(parts, gen.Random(rng, cfg))
	}
	root := &gen.Node{Kind: gen.KSeq, Subs: parts}
	if capFirst {
		// the back-reference above assumes the first capture is group 1
		n := 0
		root.Walk(func(x *gen.Node) {
			if x.Kind == gen.KCap {
				n++
			}
		})
		if n != 1 {
			root.Walk(func(x *gen.Node) {
				if x.Kind == gen.KRef {
					*x = gen.Node{Kind: gen.KLit, Ch: 'a'}
				}
			})
		}
	}
	o := cfg.Opts
	o.N = false
	gen.AssignGroups(root, o)
	gen.AvoidKnownFindings(root)
	return root
}

// engCorpus: the minimised witnesses of every engine defect found so far (known_findings.json,
// "fixed" entries). They run first in every engine oracle leg, so a regression of one of those
// repairs is reported with its original replay.
var engCorpus = func() []engCase {
	R := func(s string) []rune { return []rune(s) }
	rtl, re2, ci, sl, n := int32(regexp2.RightToLeft), int32(regexp2.RE2), int32(regexp2.IgnoreCase), int32(regexp2.Singleline), int32(regexp2.ExplicitCapture)
	cs := []engCase{
		{Pattern: `(?:ab*){2}`, Text: R("abab")},
		{Pattern: `\uFFFFa`, Text: R("x\uFFFFa")},
		{Pattern: `\uFFFFab`, Text: R("xx\uFFFFab")},
		{Pattern: `[xy]*([a ]{1,2}\s+)c(d)`, Text: R("a cd")},
		{Pattern: `[xy]*([a\t]{1,2}\s+)c(d)`, Text: R("xa\tcd")},
		{Pattern: `[xy]*(?:[a ]{1,2}\s+|q)c(d)`, Text: R("a cd")},
		{Pattern: `a{64}c`, Opts: rtl, Text: R("zz" + strings.Repeat("a", 64) + "cyy"), Start: 69},
		{Pattern: `(?<=(?:a*ba){2})c`, Text: R("baabac")},
		{Pattern: `(?<=(?:a*ca){2})`, Text: R("aacaca")},
		{Pattern: `x(?<=(?:a*ca){2}x)`, Text: R("acacax")},
		{Pattern: `(?>(?:a*ba){2})`, Opts: rtl, Text: R("baaba"), Start: 5},
		{Pattern: `\w+(?:\s+xbcy\s*|[bx]|\s+b\s+)[a-c]{1}\s*a`, CodeGen: true, Text: R("Y\U0001F600_é1\nb \ncab")},
		{Pattern: `(?:y||[^\x{1F600}])b`, Text: R("\U0001F601b")},
		{Pattern: `(?:|\D)[^\x{1F600}]aab$`, Text: R("\U0001FBF0aab")},
		{Pattern: `\G{2}abc`, Text: R("xxabc")},
		{Pattern: `(?:xx|.a)`, Text: R("c\nxx1 c")},
		{Pattern: `(?:bc|.bc)`, Text: R("bcx")},
		{Pattern: `(?:xa)*?.`, Text: R("x _ A")},
		{Pattern: `([ab]*)[bc]*c\1`, Text: R("abbca")},
		{Pattern: `(?(?!-)(?:c?|\S)|\b)__`, Text: R("b__")},
		{Pattern: `\D|.z`, Opts: re2, Text: R("xy")},
		{Pattern: `(?:A|\D|B)*x`, Opts: re2, Text: R("ABx")},
		{Pattern: `a\x{FFFD}`, Text: R("xa\ufffdy"), RawHex: "7861ff79"},
		{Pattern: `([a-b]) [^a-c]`, Opts: n, CodeGen: true, Text: R("a \n")},
		{Pattern: `(?>[12a]+?[^12a]*)\d?cAa.`, Opts: ci, Text: R("ca2ac1cAA\U0001F600")},
		{Pattern: "a\u0391a+", Opts: rtl, Text: R("xa\u0391aa"), Start: 5},
		{Pattern: `.*(?:[b-c]){1,3}?[a-c](?>\D{0,}?)[\wa-c]`, Opts: sl, Text: R("Abccbc\u00e9"), Start: 3},
		{Pattern: `(a)bx|(a)cy|(a)bz`, Text: R("acy")},
		{Pattern: `\s+a(?:bc|x|b)c`, Text: R(" abc")},
		{Pattern: `(a)bcx|(a)bdy|(a)bcz`, Text: R("abdy")},
		{Pattern: `(?=.*(?<a>x))(?<b-a>y)\k<b>`, Text: R("y.x")},
		{Pattern: `a*`, Opts: rtl, Text: R("baa"), Start: 3},
		{Pattern: `[a-z-[b]]`, Opts: ci, Text: R("B")},
		{Pattern: `[\W\d]`, Text: R("5")},
	}
	for i := range cs {
		cs[i].Source = "corpus"
	}
	return cs
}()
