package legs

import (
	"strings"

	"rvharness/internal/core"
	"rvharness/internal/gen"
)

// C15 — right-to-left mode is the mirror image of left-to-right.

func init() {
	core.Register("C15", func(c *core.Ctx) {
		st := &specGenState{cfg: c01Config(true), perAst: 8, maxLen: 10}
		core.RunLeg(c, core.Leg[specCase]{
			Name: "S-rtl", Kind: "correspondence(spec)",
			Rule: "as leg S of C01 but every pattern is compiled with RightToLeft (alone and with i/m/s/n/x/RE2 drawn at random): Go FindRunesMatchStartingAt (start = len or random) vs Lean Spec.find with rtl = true (descending attempt positions, leftward consumption, last-to-first concatenation, lookahead rightwards, spans normalised); non-trivial = AST has >1 node and input non-empty; distinct by (options, pattern, input, start); first a corpus of literals of 51-62 runes (longer than the 50 the prefix search keeps) in inputs with one or two occurrences and near misses sharing only the head or the tail",
			Corpus: c15LongLiterals(),
			N:      c.N(6000, 400000), Gen: st.next, Check: specCheck("C15"), Batch: 4000,
		})
		st2 := &specGenState{cfg: c01Config(true), perAst: 6, maxLen: 10}
		core.RunLeg(c, core.Leg[specCase]{
			Name: "T-rtl", Kind: "correspondence(spec on the engine's tree)",
			Rule: "as leg T of C01 with RightToLeft: the engine's own tree (concatenations stored reversed by the parser, direction bits per node) converted to the specification's AST and run with rtl = true must give the engine's result; a node whose direction bit contradicts its structural direction fails the conversion",
			N:    c.N(4000, 300000), Gen: st2.next, Check: specTreeCheck("C15"), Batch: 4000,
		})
	})
}

// c15LongLiterals: literals longer than the 50 runes the prefix search keeps (syntax.MaxPrefixSize). Read right to
// left the kept part is the literal's tail, and the generated inputs (at most 10 runes) never get there. Head and
// tail differ, the literal occurs once or twice, a near miss shares only the head or only the tail.
func c15LongLiterals() []specCase {
	lit := func(s string) *gen.Node {
		q := &gen.Node{Kind: gen.KSeq}
		for _, r := range s {
			q.Subs = append(q.Subs, &gen.Node{Kind: gen.KLit, Ch: r})
		}
		return q
	}
	var out []specCase
	for _, l := range []string{strings.Repeat("ab", 20) + strings.Repeat("cd", 11), strings.Repeat("x", 49) + "yz", "q" + strings.Repeat("éa", 30)} {
		head, tail := string([]rune(l)[:50]), string([]rune(l)[len([]rune(l))-50:])
		for _, in := range []string{"###" + l + "---zz", l, "a" + l + l + "b", head + "!!" + l + " " + tail, tail + head} {
			for _, o := range []gen.Opts{{RTL: true}, {RTL: true, I: true}} {
				t := []rune(in)
				out = append(out, specCase{Ast: lit(l), Opts: o, Text: t, Start: len(t)})
			}
		}
	}
	return out
}
