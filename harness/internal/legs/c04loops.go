package legs

import (
	"fmt"
	"math/rand"
	"strings"
	"unicode"

	"rvharness/internal/core"
	"rvharness/internal/gen"

	regexp2 "github.com/dlclark/regexp2/v2"
	"github.com/dlclark/regexp2/v2/syntax"
)

// C04 leg L — the proved VALIDATOR for the two facts published about a pattern that starts with an
// unbounded set loop: FindOptimizations.LandmarkChain (find mode RequiredLandmarkChain_LeftToRight) and
// FindOptimizations.LiteralAfterLoop (find mode LiteralAfterLoop_LeftToRight).
//
// Lean (Model/LoopFacts.lean, theorems in Props/C04.lean) walks the engine's OWN tree, converted by
// gen.FromGoTree, and returns the record of the same shape that it PROVES true of every match: the
// landmark chain (chainOf), the characters that follow the loop (lalOf) and the leading prefix of what
// follows the loop (lalPrefixOf). A published chain is validated when it is Lean's chain with landmarks
// dropped after the first one (landmarkFact_sublist); a published literal after the loop is validated when
// it is implied by one of Lean's two records. When the pattern has a leading positive lookahead, Lean returns
// the same three records for the lookahead's body too (newFindOptimizations publishes the record of that body
// when the whole pattern gives no search); a published record may be validated against either set of records
// (look_loopFacts_sound, published_look_literalAfterLoop_sound). Sets are compared rune-exactly with Go's
// unicode tables on the boundary points of both sides. Lean's parse is its own, so a failed validation is not yet a
// violation: the leg then searches for an input on which the real find differs from the scan with all
// acceleration disabled.

// ---------------------------------------------------------------------------------------------
// cases

type loopCase struct {
	Pattern string    `json:"pattern"`
	Opts    int32     `json:"opts"`
	CodeGen bool      `json:"codegen,omitempty"`
	Ast     *gen.Node `json:"ast,omitempty"`  // for pattern-directed inputs of the search step
	Text    []rune    `json:"text,omitempty"` // a witness input (corpus; the failing input of a replay)
	Start   int       `json:"start,omitempty"`
	Seed    int64     `json:"seed"`
	Source  string    `json:"source,omitempty"`
}

func (c *loopCase) asSets() *setsCase {
	return &setsCase{Pattern: c.Pattern, Opts: c.Opts, CodeGen: c.CodeGen, Ast: c.Ast, Text: c.Text, Seed: c.Seed, Source: c.Source}
}

var loopsCorpus = func() []loopCase {
	S, M, I := int32(regexp2.Singleline), int32(regexp2.Multiline), int32(regexp2.IgnoreCase)
	E, R2 := int32(regexp2.ECMAScript), int32(regexp2.RE2)
	var out []loopCase
	for _, e := range []struct {
		pat   string
		opts  int32
		texts []string
	}{
		// witnesses of engine defects in the two finders
		{`[xy]*([a ]{1,2}\s+)c(d)`, 0, []string{"a cd", "xa cd"}},                                     // D44
		{`[xy]*([a\t]{1,2}\s+)c(d)`, 0, []string{"xa\tcd"}},                                           // D44
		{`[xy]*(?:[a ]{1,2}\s+|q)c(d)`, 0, []string{"a cd", "xqcd"}},                                  // D44
		{`\s+a(?:bc|x|b)c`, 0, []string{" abc", " abcc", " axc"}},                                     // D30
		{`\w+(?:\s+xbcy\s*|[bx]|\s+b\s+)[a-c]\s*a`, 0, []string{"Y_1\nb \ncab", "axba", "a xbcy ca"}}, // D41
		{`\w+(?:\s+xbcy\s*|[bx]|\s+b\s+)[a-c]{1}\s*a`, 0, []string{"Y\U0001F600_é1\nb \ncab"}},
		{`(?s).*(?:[b-c]){1,3}?[a-c](?>\D*?)[\wa-c]`, 0, []string{"bbca", "xbcab", "\nbaa"}}, // D29
		// chains
		{`[a-z]*\s*ab(?:cd|c)x`, 0, []string{"q abcx", "abcdx", "zz  abcdxx"}},
		{`\w*\s+foo\s+(?:bar|baz)\s*qux`, 0, []string{"x foo bar qux", " foo bazqux", "w  foo  baz  qux"}},
		{`\d*(x)(y)z`, 0, []string{"12xyz", "xyz", "1xyxyz"}},
		{`[ab]*[cd]+e`, 0, []string{"abcde", "ce", "abde"}},
		{`[xy]*(a)(b)(c)`, 0, []string{"xyabc", "abc", "xabxabc"}},
		{`[xy]*(\s*ab\s+)(cd)e`, 0, []string{"x ab cde", "ab cde", "xyab  cde"}},
		{`[xy]*(?:\s*ab|cd\s*)[ab]{1,3}c`, 0, []string{"x abac", "cd  bc", "xycdaaac"}},
		{`[^,]*,\s*[ab]{2}\s*;x`, 0, []string{"q, ab ;x", ",ba;x", "a,b, aa;x"}},
		{`.*a\bb?\s+[bc]{1,2}x`, S, []string{"\na  bcx", "za cx", "a bbx"}},
		{`[xy]*^a(b)c`, M, []string{"xy\nabc", "abc", "x\nabc"}},
		{`(?>[xy]*)(?:a|b|\s+c)(d)e`, 0, []string{"xyade", "x cde", "bde"}},
		{`[xy]*?([ab]{2})(?:c|d)\s*e`, 0, []string{"xabce", "bad  e", "yyaace"}},
		{`\s*(a)[bc](?=d)d`, 0, []string{"  abd", "acd", " aacd"}},
		{`[a-c]+x\s*(?:ab|[bc]{1,2}?\s*)c`, 0, []string{"axabc", "bx  b c", "cxbcc"}},
		{`\w*\s+a\s+b`, R2, []string{"x a b", " a\tb", "ww  a  b"}},
		{`\w*\s+a\s+b`, E, []string{"x a b", " a\tb"}},
		{`[xy]*(?:ab|[ab])c(d)`, I, []string{"XABCD", "yacd", "ABcD"}},
		// literal after the leading loop
		{`[ab]*cd`, 0, []string{"abcd", "cd", "abccd"}},
		{`[ab]*(?:cd|ce)`, 0, []string{"abce", "cd"}},
		{`[^x]*xy`, 0, []string{"aaxy", "xy", "axaxy"}},
		{`\s*(?i)ab`, 0, []string{"  AB", "aB", " a ab"}},
		{`[xy]*(?i:ab)c`, 0, []string{"xyABc", "abc", "xaBc"}},
		{`[ab]*[cd]`, 0, []string{"abd", "c"}},
		{`\w*-x`, 0, []string{"ab-x", "-x", "a-b-x"}},
		{`\w*(?:-a|-b)c`, 0, []string{"x-ac", "-bc", "a-a-bc"}},
		{`[^,]*,`, 0, []string{"ab,", ",", "a,b,"}},
		{`[^,]*,,x`, 0, []string{"ab,,x", ",,,x"}},
		{`.*;a`, S, []string{"x\n;a", ";a", ";;a"}},
		{`\s*ab`, 0, []string{"  ab", "ab", " a ab"}},
		{`\s*[ab]c`, 0, []string{" ac", "bc", " a bc"}},
		{`\s*[ab]+c`, 0, []string{" abc", "bc"}},
		{`\d*(?:ab){2}`, 0, []string{"12abab", "abab", "1ab2abab"}},
		{`[a-z]*\b-+x`, 0, []string{"ab--x", "-x"}},
		{`\w*?(-)(x)`, 0, []string{"ab-x", "-x"}},
		{`(?>\d*)(a)b?`, 0, []string{"12a", "ab", "1b2a"}},
		{`\s*ab`, I, []string{"  AB", "aB", " a Ab"}},
		{`\d*abc`, I, []string{"12ABC", "aBc", "1ab2abc"}},
		{`\s+\bab`, R2, []string{" ab", "x ab"}},
		{`[^-]*-{2}a`, 0, []string{"x--a", "--a", "-x--a"}},
		{`[^,;]*,`, 0, []string{"ab,", ",", "a;b,"}},
		{`[^,;]*,,x`, 0, []string{"ab,,x", ",,,x", ";,,x"}},
		{`\w*(-)`, 0, []string{"ab-", "-", "a-b-"}},
		{`\w+?-{2,3}`, 0, []string{"a--", "ab---", "-a--"}},
		{`[a-z]*[01]+x`, 0, []string{"ab01x", "1x", "a0b1x"}},
		{`\d*(?:b ){1,3}`, I, []string{"12B b ", "b ", "1b2B "}}, // ignore-case string out of a counted group
		{`\s*(?:ba){2,3}x`, I, []string{" BAbax", "babaBAx", " ba babax"}},
		{`(\d*?)(?:ax){2,3}[b-c]`, I, []string{"1AXaxb", "axaxaxc"}},
		// under IgnoreCase the parser coalesces `aa` into the fixed-count set loop [Aa]{2}: the string "aab" is read off
		// `[Aa]{2}[Bb]`, first iteration of the counted group (C03 thorough seed 5 on main, found by the coordinator)
		{`[\d\-]+(?:aab){1,2}B\Z`, I, []string{"1-aabB", "12AABaabb", "-aaB", "1aabaab", "7aAbB\n"}},
		{`[\d\-]+(?:aab)+b`, I, []string{"1-aabB", "1AABAABb", "-aab"}},
		{`\d*aaab{2}c`, I, []string{"1AAabBc", "aaabbc", "12aabbc"}},
		// the record comes from the body of a leading positive lookahead
		{`((?=[a-b]{0,}c))[a-b]?\k<1>`, 0, []string{"abc", "c", "xbac"}},
		{`(?=[ab]*c)\w*`, 0, []string{"abc", "xabc", "abxc"}},
		{`(?=\d*(?:-a|-b))\S*`, 0, []string{"12-a", "-b", "1-c2-b"}},
		{`(?=[xy]*a(b)c)\w*`, 0, []string{"xyabc", "abc", "xabxabc"}},
	} {
		for v := 0; v < 2; v++ {
			for _, t := range e.texts {
				out = append(out, loopCase{Pattern: e.pat, Opts: e.opts, CodeGen: v == 1, Text: []rune(t), Seed: 1, Source: "corpus"})
			}
		}
	}
	return out
}()

// ---------------------------------------------------------------------------------------------
// generator: leg V's stream and a directed stream for the two analyses

type loopsGen struct{ v setsGen }

func (g *loopsGen) next(rng *rand.Rand, i int) loopCase {
	if rng.Intn(100) < 35 {
		s := g.v.next(rng, i)
		return loopCase{Pattern: s.Pattern, Opts: s.Opts, CodeGen: s.CodeGen, Ast: s.Ast, Seed: s.Seed, Source: "V:" + s.Source}
	}
	return loopsDirected(rng)
}

func loopsDirected(rng *rand.Rand) loopCase {
	var o gen.Opts
	ro := regexp2.RegexOptions(0)
	switch rng.Intn(10) {
	case 0:
		o.I = true
	case 1:
		o.S = true
	case 2:
		o.M = true
	case 3:
		o.RE2 = true
	case 4:
		ro = regexp2.ECMAScript
	case 5:
		o.I, o.M = true, rng.Intn(2) == 0
	}
	lit := func(r rune) *gen.Node { return &gen.Node{Kind: gen.KLit, Ch: r} }
	cls := func(items ...gen.ClassItem) *gen.Node {
		return &gen.Node{Kind: gen.KClass, Class: &gen.Class{Items: items}}
	}
	short := func(s byte) *gen.Node { return &gen.Node{Kind: gen.KShort, Short: s} }
	quant := func(lo, hi int, lazy bool, body *gen.Node) *gen.Node {
		return &gen.Node{Kind: gen.KQuant, Lo: lo, Hi: hi, Lazy: lazy, Subs: []*gen.Node{body}}
	}
	seq := func(subs ...*gen.Node) *gen.Node {
		if len(subs) == 1 {
			return subs[0]
		}
		return &gen.Node{Kind: gen.KSeq, Subs: subs}
	}
	chainMode := rng.Intn(100) < 55
	// the leading loop
	var body *gen.Node
	pick := rng.Intn(8)
	if !chainMode {
		// the literal-after-loop mode is only chosen when the first-character set is not searchable (negated,
		// or more than five characters): loops over large sets
		pick = []int{1, 1, 2, 3, 4, 6, 7, 7}[pick]
	}
	switch pick {
	case 0, 5:
		body = cls(gen.ClassItem{Lo: 'x', Hi: 'y'})
	case 1:
		body = short('w')
	case 2:
		body = short('s')
	case 3:
		body = &gen.Node{Kind: gen.KClass, Class: &gen.Class{Neg: true, Items: []gen.ClassItem{{Lo: ',', Hi: ','}}}}
	case 4:
		body = &gen.Node{Kind: gen.KDot}
		if rng.Intn(4) != 0 && ro == 0 {
			o.S = true
		}
	case 6:
		body = cls(gen.ClassItem{Lo: 'a', Hi: 'c'})
		if !chainMode {
			body = cls(gen.ClassItem{Lo: 'a', Hi: 'z'})
		}
	default:
		body = short('d')
	}
	lo := 0
	if pick == 6 || rng.Intn(5) == 0 {
		lo = 1
	}
	loop := quant(lo, -1, rng.Intn(6) == 0, body)
	if rng.Intn(8) == 0 {
		loop = &gen.Node{Kind: gen.KAtomic, Subs: []*gen.Node{loop}}
	} else if rng.Intn(12) == 0 {
		loop = &gen.Node{Kind: gen.KCap, Subs: []*gen.Node{loop}}
	}
	alpha := []rune{'a', 'b', 'c', 'x', ' '}
	word := func(n int) *gen.Node {
		var subs []*gen.Node
		for ; n > 0; n-- {
			subs = append(subs, lit(alpha[rng.Intn(len(alpha))]))
		}
		return seq(subs...)
	}
	smallSet := func() *gen.Node {
		switch rng.Intn(4) {
		case 0:
			return cls(gen.ClassItem{Lo: 'a', Hi: 'a'}, gen.ClassItem{Lo: ' ', Hi: ' '})
		case 1:
			return cls(gen.ClassItem{Lo: 'b', Hi: 'c'})
		case 2:
			return cls(gen.ClassItem{Lo: 'a', Hi: 'a'}, gen.ClassItem{Lo: '\t', Hi: '\t'})
		}
		return cls(gen.ClassItem{Lo: 'a', Hi: 'b'})
	}
	ws := func() *gen.Node { return quant(rng.Intn(2), -1, rng.Intn(8) == 0, short('s')) }
	core := func() *gen.Node {
		switch rng.Intn(6) {
		case 0, 1:
			return word(1 + rng.Intn(3))
		case 2:
			return smallSet()
		default:
			switch rng.Intn(3) {
			case 0:
				return quant(1, 2, false, smallSet())
			case 1:
				return quant(2, 2, false, smallSet())
			}
			return quant(1, 3, true, smallSet())
		}
	}
	wrapped := func() *gen.Node { // ws? core ws?
		var subs []*gen.Node
		if rng.Intn(3) == 0 {
			subs = append(subs, ws())
		}
		subs = append(subs, core())
		if rng.Intn(3) == 0 {
			subs = append(subs, ws())
		}
		return seq(subs...)
	}
	zero := func() *gen.Node {
		switch rng.Intn(4) {
		case 0:
			if o.M {
				return &gen.Node{Kind: gen.KAnchor, Anchor: "^"}
			}
			return &gen.Node{Kind: gen.KAnchor, Anchor: "b"}
		case 1:
			return &gen.Node{Kind: gen.KLook, Subs: []*gen.Node{lit('a')}}
		}
		return &gen.Node{Kind: gen.KAnchor, Anchor: "b"}
	}
	item := func() *gen.Node {
		switch rng.Intn(12) {
		case 0, 1, 2:
			return word(1 + rng.Intn(3))
		case 3:
			return smallSet()
		case 4:
			return core()
		case 5:
			return ws()
		case 6, 7:
			return &gen.Node{Kind: gen.KCap, Subs: []*gen.Node{wrapped()}}
		case 8, 9:
			alts := []*gen.Node{wrapped(), wrapped()}
			if rng.Intn(2) == 0 {
				alts = append(alts, wrapped())
			}
			return &gen.Node{Kind: gen.KGroup, Subs: []*gen.Node{{Kind: gen.KAlt, Subs: alts}}}
		case 10:
			return zero()
		}
		return wrapped()
	}
	parts := []*gen.Node{loop}
	if chainMode {
		for k := 3 + rng.Intn(4); k > 0; k-- {
			parts = append(parts, item())
		}
	} else {
		// what findLiteralFollowingLeadingLoop reads: a literal, an alternation with a common prefix, a small
		// set, a loop with a minimum; then at most a short tail (fewer landmarks than a chain needs)
		if rng.Intn(6) == 0 {
			parts = append(parts, zero())
		}
		punct := []rune{'-', ',', ';', ':', 'a', 'b', ' ', '.'}
		p := func() *gen.Node { return lit(punct[rng.Intn(len(punct))]) }
		var first *gen.Node
		switch rng.Intn(8) {
		case 0, 1:
			first = p()
		case 2:
			first = seq(p(), lit(alpha[rng.Intn(len(alpha))]), lit(alpha[rng.Intn(len(alpha))]))
		case 3:
			c := p()
			first = &gen.Node{Kind: gen.KGroup, Subs: []*gen.Node{{Kind: gen.KAlt, Subs: []*gen.Node{seq(c, word(1)), seq(c, word(2))}}}}
		case 4:
			first = cls(gen.ClassItem{Lo: '-', Hi: '-'}, gen.ClassItem{Lo: ';', Hi: ';'})
			if rng.Intn(2) == 0 {
				first = quant(1+rng.Intn(2), -1, rng.Intn(4) == 0, first)
			}
		case 5:
			first = quant(1+rng.Intn(2), 2+rng.Intn(2), false, p())
		case 6:
			first = quant(1+rng.Intn(2), 3, false, &gen.Node{Kind: gen.KGroup, Subs: []*gen.Node{seq(p(), word(1))}})
		default:
			first = &gen.Node{Kind: gen.KCap, Subs: []*gen.Node{seq(p(), word(1+rng.Intn(2)))}}
		}
		parts = append(parts, first)
		for k := rng.Intn(3); k > 0; k-- {
			switch rng.Intn(5) {
			case 0:
				parts = append(parts, quant(0, 1, false, word(1)))
			case 1:
				parts = append(parts, &gen.Node{Kind: gen.KDot})
			case 2:
				parts = append(parts, quant(0, -1, false, short("wd"[rng.Intn(2)])))
			default:
				parts = append(parts, item())
			}
		}
	}
	root := &gen.Node{Kind: gen.KSeq, Subs: parts}
	if rng.Intn(10) == 0 {
		root = &gen.Node{Kind: gen.KCap, Subs: []*gen.Node{root}}
	}
	if rng.Intn(25) == 0 {
		// the shape as the body of a leading positive lookahead in front of something that gives no search of
		// its own: newFindOptimizations then publishes the record of the lookahead's body
		root = &gen.Node{Kind: gen.KSeq, Subs: []*gen.Node{{Kind: gen.KLook, Subs: []*gen.Node{root}}, quant(0, -1, false, short("wS"[rng.Intn(2)]))}}
	}
	gen.AssignGroups(root, o)
	return loopCase{Pattern: root.Print(o), Opts: int32(regexOptions(o) | ro), CodeGen: rng.Intn(2) == 0, Ast: root, Seed: rng.Int63(), Source: "directed"}
}

// ---------------------------------------------------------------------------------------------
// Lean's records

type leanWs struct {
	set leanSet
	min int
}

type leanAlt struct {
	lead, trail *leanWs
	isLit       bool
	lit         []rune
	set         leanSet
	lo, hi      int
}

type leanChain struct {
	loop leanSet
	lms  [][]leanAlt
}

type leanLal struct {
	loop leanSet
	lit  []leanSet
}

type leanLalPrefix struct {
	loop leanSet
	str  []rune
}

// parseLeanPred reads one leaf test `(one c ci)` / `(notone c ci)` / `(set <cls> ci)` with leg V's parser
// (a single test is a one-element union).
func parseLeanPred(p *sx) (leanSet, error) {
	if p == nil || p.leaf {
		return nil, fmt.Errorf("bad pred")
	}
	s, ok, err := parseLeanSet(&sx{list: []*sx{{atom: "some", leaf: true}, p}})
	if err != nil {
		return nil, err
	}
	if !ok || len(s) != 1 {
		return nil, fmt.Errorf("bad pred")
	}
	return s, nil
}

func parseLeanLoopTag(n *sx) (leanSet, error) {
	if n.head() != "loop" || len(n.args()) != 1 {
		return nil, fmt.Errorf("bad loop entry")
	}
	return parseLeanPred(n.args()[0])
}

func parseLeanWs(n *sx, tag string) (*leanWs, error) {
	if n.head() != tag || len(n.args()) != 1 {
		return nil, fmt.Errorf("bad %s", tag)
	}
	a := n.args()[0]
	if a.leaf {
		if a.atom == "none" {
			return nil, nil
		}
		return nil, fmt.Errorf("bad %s %q", tag, a.atom)
	}
	if len(a.list) != 2 || !a.list[1].leaf {
		return nil, fmt.Errorf("bad %s", tag)
	}
	p, err := parseLeanPred(a.list[0])
	if err != nil {
		return nil, err
	}
	return &leanWs{set: p, min: a.list[1].int()}, nil
}

func parseLeanAlt(n *sx) (leanAlt, error) {
	var out leanAlt
	a := n.args()
	if n.head() != "alt" || len(a) != 3 {
		return out, fmt.Errorf("bad alt")
	}
	var err error
	if out.lead, err = parseLeanWs(a[0], "lead"); err != nil {
		return out, err
	}
	if out.trail, err = parseLeanWs(a[2], "trail"); err != nil {
		return out, err
	}
	if a[1].head() != "core" || len(a[1].args()) != 1 {
		return out, fmt.Errorf("bad core")
	}
	c := a[1].args()[0]
	switch c.head() {
	case "lit":
		out.isLit = true
		for _, r := range c.args() {
			out.lit = append(out.lit, rune(r.int()))
		}
		if len(out.lit) == 0 {
			return out, fmt.Errorf("empty literal core")
		}
	case "set":
		ca := c.args()
		if len(ca) != 3 {
			return out, fmt.Errorf("bad set core")
		}
		if out.set, err = parseLeanPred(ca[0]); err != nil {
			return out, err
		}
		out.lo, out.hi = ca[1].int(), ca[2].int()
	default:
		return out, fmt.Errorf("bad core %q", c.head())
	}
	return out, nil
}

// leanLoopFacts: the three records Lean proves about one (sub)pattern; a nil record is Lean's `none`
type leanLoopFacts struct {
	chain *leanChain
	lal   *leanLal
	pre   *leanLalPrefix
}

// parseLoopFactEntries reads the entries `(chain …) (lal …) (lalprefix …)` among the arguments of n.
func parseLoopFactEntries(n *sx) (*leanLoopFacts, error) {
	var err error
	isNone := func(n *sx) bool { a := n.args(); return len(a) == 1 && a[0].leaf && a[0].atom == "none" }
	cn, ln, pn := n.find("chain"), n.find("lal"), n.find("lalprefix")
	if cn == nil || ln == nil || pn == nil {
		return nil, fmt.Errorf("missing entry")
	}
	out := &leanLoopFacts{}
	if !isNone(cn) {
		a := cn.args()
		if len(a) < 2 {
			return nil, fmt.Errorf("bad chain")
		}
		ch := &leanChain{}
		if ch.loop, err = parseLeanLoopTag(a[0]); err != nil {
			return nil, err
		}
		for _, lm := range a[1:] {
			if lm.head() != "lm" || len(lm.args()) == 0 {
				return nil, fmt.Errorf("bad landmark")
			}
			var alts []leanAlt
			for _, al := range lm.args() {
				x, err := parseLeanAlt(al)
				if err != nil {
					return nil, err
				}
				alts = append(alts, x)
			}
			ch.lms = append(ch.lms, alts)
		}
		out.chain = ch
	}
	if !isNone(ln) {
		a := ln.args()
		if len(a) != 2 || a[1].head() != "lit" || len(a[1].args()) == 0 {
			return nil, fmt.Errorf("bad lal")
		}
		lal := &leanLal{}
		if lal.loop, err = parseLeanLoopTag(a[0]); err != nil {
			return nil, err
		}
		for _, q := range a[1].args() {
			p, err := parseLeanPred(q)
			if err != nil {
				return nil, err
			}
			lal.lit = append(lal.lit, p)
		}
		out.lal = lal
	}
	if !isNone(pn) {
		a := pn.args()
		if len(a) != 2 || a[1].head() != "str" || len(a[1].args()) == 0 {
			return nil, fmt.Errorf("bad lalprefix")
		}
		pre := &leanLalPrefix{}
		if pre.loop, err = parseLeanLoopTag(a[0]); err != nil {
			return nil, err
		}
		for _, r := range a[1].args() {
			pre.str = append(pre.str, rune(r.int()))
		}
		out.pre = pre
	}
	return out, nil
}

// parseLoopFacts reads `(ok (chain …) (lal …) (lalprefix …) (look none | (look (chain …) (lal …) (lalprefix …))))`:
// the records of the pattern and, when it has a leading positive lookahead, of the lookahead's body (nil: none).
func parseLoopFacts(answer string) (own, look *leanLoopFacts, err error) {
	ans, err := parseSx(answer)
	if err != nil {
		return nil, nil, err
	}
	if ans.head() != "ok" {
		return nil, nil, fmt.Errorf("not ok")
	}
	if own, err = parseLoopFactEntries(ans); err != nil {
		return nil, nil, err
	}
	ln := ans.find("look")
	if ln == nil {
		return nil, nil, fmt.Errorf("missing look entry")
	}
	if a := ln.args(); len(a) == 1 && a[0].leaf && a[0].atom == "none" {
		return own, nil, nil
	}
	if look, err = parseLoopFactEntries(ln); err != nil {
		return nil, nil, err
	}
	return own, look, nil
}

// ---------------------------------------------------------------------------------------------
// rune-exact set comparisons on boundary points

type loopVal struct{ gt *gen.GoTree }

// testRunes: the points and one rune strictly inside every gap between two consecutive points
func testRunes(p *pointSet) []rune {
	pts := p.sorted()
	out := make([]rune, 0, 2*len(pts))
	for i, r := range pts {
		out = append(out, r)
		if i+1 < len(pts) && pts[i+1]-r >= 2 {
			out = append(out, r+(pts[i+1]-r)/2)
		}
	}
	return out
}

func charSetPoints(cs *syntax.CharSet, p *pointSet) {
	if cs != nil {
		charSetBounds(cs.VerifDump(), p)
	}
}

// predEqualsCharSet: the Lean test and the engine's set accept exactly the same runes.
func (v *loopVal) predEqualsCharSet(pred leanSet, cs *syntax.CharSet) bool {
	if cs == nil {
		return false
	}
	p := newPointSet()
	pred.bounds(v.gt, p)
	charSetPoints(cs, p)
	for _, r := range testRunes(p) {
		if pred.in(r, v.gt.Named) != cs.CharIn(r) {
			return false
		}
	}
	return true
}

// predSubsetOf: every rune the Lean test accepts satisfies rhs. extraPoints must hold every point where
// rhs changes (for a finite rhs: all of its members); between two consecutive points both sides are
// constant, one interior rune decides the gap.
func (v *loopVal) predSubsetOf(pred leanSet, rhs func(rune) bool, extraPoints []rune) bool {
	p := newPointSet()
	pred.bounds(v.gt, p)
	for _, r := range extraPoints {
		p.add(r)
	}
	for _, r := range testRunes(p) {
		if pred.in(r, v.gt.Named) && !rhs(r) {
			return false
		}
	}
	return true
}

func (v *loopVal) predSubsetOfCharSet(pred leanSet, cs *syntax.CharSet) bool {
	if cs == nil {
		return false
	}
	p := newPointSet()
	charSetPoints(cs, p)
	return v.predSubsetOf(pred, cs.CharIn, p.sorted())
}

// ---------------------------------------------------------------------------------------------
// validation of a published chain

func (v *loopVal) wsEqual(set *syntax.CharSet, required bool, lw *leanWs) bool {
	if set == nil {
		return lw == nil && !required
	}
	if lw == nil {
		return false
	}
	return required == (lw.min > 0) && v.predEqualsCharSet(lw.set, set)
}

func (v *loopVal) altEqual(pub *syntax.RequiredLandmarkAlternative, la *leanAlt) bool {
	if !v.wsEqual(pub.LeadingWhitespaceSet, pub.RequireWhitespaceBefore, la.lead) ||
		!v.wsEqual(pub.TrailingWhitespaceSet, pub.RequireWhitespaceAfter, la.trail) {
		return false
	}
	if len(pub.Literal) > 0 {
		if !la.isLit || len(la.lit) != len(pub.Literal) {
			return false
		}
		for i, r := range pub.Literal {
			if la.lit[i] != r {
				return false
			}
		}
		return true
	}
	if la.isLit || pub.Set == nil {
		return false
	}
	return pub.MinRepeat == la.lo && pub.MaxRepeat == la.hi && v.predEqualsCharSet(la.set, pub.Set)
}

func (v *loopVal) landmarkEqual(pub *syntax.RequiredLandmark, lm []leanAlt) bool {
	if len(pub.Alternatives) != len(lm) {
		return false
	}
	for i := range lm {
		if !v.altEqual(&pub.Alternatives[i], &lm[i]) {
			return false
		}
	}
	return true
}

// validateChain: "" when the published chain is Lean's chain with later landmarks dropped, else the reason;
// dropped = how many of Lean's landmarks the published chain does not use.
func (v *loopVal) validateChain(ch *syntax.RequiredLandmarkChain, lean *leanChain) (reason string, dropped int) {
	if lean == nil {
		return "lean-none", 0
	}
	if len(ch.Landmarks) == 0 {
		return "no-landmarks", 0
	}
	if !v.predEqualsCharSet(lean.loop, ch.LeadingLoopSet) {
		return "loop-set", 0
	}
	if !v.landmarkEqual(&ch.Landmarks[0], lean.lms[0]) {
		return "first-landmark", 0
	}
	j := 1
	for i := 1; i < len(ch.Landmarks); i++ {
		for j < len(lean.lms) && !v.landmarkEqual(&ch.Landmarks[i], lean.lms[j]) {
			j++
		}
		if j >= len(lean.lms) {
			return fmt.Sprintf("landmark-%d-not-found", i), 0
		}
		j++
	}
	return "", len(lean.lms) - len(ch.Landmarks)
}

// ---------------------------------------------------------------------------------------------
// validation of a published literal after the loop

// lalCmp: how indexOfLiteralAfterLoop compares a text rune t with the i-th rune x of an ignore-case string
func lalCmp(ascii bool) func(x, t rune) bool {
	if ascii {
		return func(x, t rune) bool { return foldASCII(t) == foldASCII(x) } // helpers.IndexOfIgnoreCaseAscii
	}
	return func(x, t rune) bool { return t == x || unicode.ToLower(t) == x } // helpers.IndexOfIgnoreCase
}

// lalCmpMembers: every rune t with cmp(x, t)
func lalCmpMembers(ascii bool, x rune) []rune {
	out := []rune{x}
	if ascii {
		if 'a' <= x && x <= 'z' {
			out = append(out, x-32)
		} else if 'A' <= x && x <= 'Z' {
			out = append(out, x+32)
		}
		return out
	}
	for _, r := range caseChanging() {
		if unicode.ToLower(r) == x {
			out = append(out, r)
		}
	}
	return out
}

func runeIn(rs []rune, r rune) bool {
	for _, c := range rs {
		if c == r {
			return true
		}
	}
	return false
}

// what the finder searches for, position by position: a string (with its comparison), or one position
// with a list of characters
type lalNeedle struct {
	str   []rune
	cmp   func(x, t rune) bool // nil: case-sensitive
	ascii bool
	chars []rune // when str is empty
}

func lalNeedleOf(l *syntax.LiteralAfterLoop) lalNeedle {
	switch {
	case l.String != "":
		n := lalNeedle{str: []rune(l.String)}
		if l.StringIgnoreCase {
			n.ascii = isASCIIRunes(n.str)
			n.cmp = lalCmp(n.ascii)
		}
		return n
	case len(l.Chars) > 0:
		return lalNeedle{chars: l.Chars}
	}
	return lalNeedle{chars: []rune{l.Char}}
}

// via (lal (loop P) (lit Q0 Q1 …)): "" or the reason
func (v *loopVal) validateLal(l *syntax.LiteralAfterLoop, lean *leanLal) string {
	if lean == nil {
		return "lean-none"
	}
	if !v.predSubsetOfCharSet(lean.loop, l.LoopNode.Set) {
		return "loop-set"
	}
	n := lalNeedleOf(l)
	if len(n.str) == 0 {
		if !v.predSubsetOf(lean.lit[0], func(r rune) bool { return runeIn(n.chars, r) }, n.chars) {
			return "lal-literal"
		}
		return ""
	}
	if len(n.str) > len(lean.lit) {
		return "lal-literal"
	}
	for i, x := range n.str {
		x := x
		ok := false
		if n.cmp == nil {
			ok = v.predSubsetOf(lean.lit[i], func(r rune) bool { return r == x }, []rune{x})
		} else {
			ok = v.predSubsetOf(lean.lit[i], func(r rune) bool { return n.cmp(x, r) }, lalCmpMembers(n.ascii, x))
		}
		if !ok {
			return "lal-literal"
		}
	}
	return ""
}

// via (lalprefix (loop P) (str w…)): "" or the reason
func (v *loopVal) validateLalPrefix(l *syntax.LiteralAfterLoop, lean *leanLalPrefix) string {
	if lean == nil {
		return "lean-none"
	}
	if !v.predSubsetOfCharSet(lean.loop, l.LoopNode.Set) {
		return "loop-set"
	}
	n := lalNeedleOf(l)
	if len(n.str) == 0 {
		if !runeIn(n.chars, lean.str[0]) {
			return "lal-literal"
		}
		return ""
	}
	if len(n.str) > len(lean.str) {
		return "lal-literal"
	}
	for i, x := range n.str {
		if n.cmp == nil && lean.str[i] != x || n.cmp != nil && !n.cmp(x, lean.str[i]) {
			return "lal-literal"
		}
	}
	return ""
}

// ---------------------------------------------------------------------------------------------
// the published records, field by field (for reports)

func setStr(s *syntax.CharSet) string {
	if s == nil {
		return "nil"
	}
	return s.String()
}

func describeChain(ch *syntax.RequiredLandmarkChain) string {
	var b strings.Builder
	fmt.Fprintf(&b, "LeadingLoopSet=%s", setStr(ch.LeadingLoopSet))
	for i, lm := range ch.Landmarks {
		for j, a := range lm.Alternatives {
			fmt.Fprintf(&b, "; landmark[%d].alt[%d]{Literal=%q Set=%s MinRepeat=%d MaxRepeat=%d LeadingWhitespaceSet=%s RequireWhitespaceBefore=%v TrailingWhitespaceSet=%s RequireWhitespaceAfter=%v}",
				i, j, string(a.Literal), setStr(a.Set), a.MinRepeat, a.MaxRepeat, setStr(a.LeadingWhitespaceSet), a.RequireWhitespaceBefore,
				setStr(a.TrailingWhitespaceSet), a.RequireWhitespaceAfter)
		}
	}
	return b.String()
}

func describeLal(l *syntax.LiteralAfterLoop) string {
	return fmt.Sprintf("LoopNode.Set=%s String=%q StringIgnoreCase=%v Chars=%q Char=%q", setStr(l.LoopNode.Set), l.String, l.StringIgnoreCase, string(l.Chars), l.Char)
}

// ---------------------------------------------------------------------------------------------
// the search for an input the finder gets wrong

var loopProbeRunes = []rune{'x', 'y', 'a', 'b', 'c', ' ', '\n', '\t', '1', ',', '-', ';', 'z', 'q', 'd', 'A', 'B', '_', 'é'}

func setMembers(s *syntax.CharSet, n int) []rune {
	var out []rune
	if s == nil {
		return out
	}
	for _, r := range loopProbeRunes {
		if len(out) < n && s.CharIn(r) {
			out = append(out, r)
		}
	}
	return out
}

func setNonMember(s *syntax.CharSet) (rune, bool) {
	for _, r := range []rune{'z', 'q', '!', '1', ' '} {
		if s == nil || !s.CharIn(r) {
			return r, true
		}
	}
	return 0, false
}

func repRunes(rs []rune, n int) []rune {
	var out []rune
	for i := 0; i < n && len(rs) > 0; i++ {
		out = append(out, rs[i%len(rs)])
	}
	return out
}

// chainInputs: texts that carry the landmarks in order. First a systematic part: for every choice of one
// alternative per landmark (at most 32 choices), whitespace in front of / behind every core or not, set cores
// at MinRepeat or MaxRepeat, with and without a loop-set character in front; then random texts: loop-set
// characters and whitespace in front, short gaps, near misses, set runs of MinRepeat-1 .. MaxRepeat+1.
func chainInputs(rng *rand.Rand, ch *syntax.RequiredLandmarkChain, count int) [][]rune {
	loopM := setMembers(ch.LeadingLoopSet, 2)
	var prefixes [][]rune
	prefixes = append(prefixes, nil, nil, []rune{' '})
	if nm, ok := setNonMember(ch.LeadingLoopSet); ok {
		prefixes = append(prefixes, []rune{nm})
	}
	for _, m := range loopM {
		prefixes = append(prefixes, []rune{m}, []rune{m, m}, []rune{'z', m}, []rune{m, ' '})
	}
	gaps := [][]rune{nil, nil, nil, nil, {'z'}, {' '}}
	for _, m := range loopM {
		gaps = append(gaps, []rune{m})
	}
	// one alternative as text: nLead / nTrail whitespace runes (only where the alternative has such a set, or
	// force), a core of n repetitions (sets) or the literal
	piece := func(a *syntax.RequiredLandmarkAlternative, nLead, nTrail, n int, nearMiss bool) []rune {
		var out []rune
		if m := setMembers(a.LeadingWhitespaceSet, 3); len(m) > 0 {
			for i := 0; i < nLead; i++ {
				out = append(out, m[rng.Intn(len(m))])
			}
		}
		if len(a.Literal) > 0 {
			l := append([]rune{}, a.Literal...)
			if nearMiss {
				l = l[:len(l)-1]
			}
			out = append(out, l...)
		} else {
			m := setMembers(a.Set, 3)
			if n > 8 {
				n = 8
			}
			if nearMiss && len(m) > 1 {
				for i := 0; i < n; i++ {
					out = append(out, m[rng.Intn(len(m))])
				}
			} else {
				out = append(out, repRunes(m, n)...)
			}
		}
		if m := setMembers(a.TrailingWhitespaceSet, 3); len(m) > 0 {
			for i := 0; i < nTrail; i++ {
				out = append(out, m[rng.Intn(len(m))])
			}
		}
		return out
	}
	var res [][]rune
	// systematic part
	combos := 1
	for _, lm := range ch.Landmarks {
		if n := len(lm.Alternatives); n > 0 && combos <= 32 {
			combos *= n
		}
	}
	pickAlt := func(c, i int) *syntax.RequiredLandmarkAlternative {
		// the i-th digit of c in the mixed radix of the alternative counts
		for j := 0; j < i; j++ {
			if n := len(ch.Landmarks[j].Alternatives); n > 0 {
				c /= n
			}
		}
		alts := ch.Landmarks[i].Alternatives
		return &alts[c%len(alts)]
	}
	for c := 0; c < combos && c < 32; c++ {
		cc := c
		if combos > 32 {
			cc = rng.Intn(combos)
		}
		for v := 0; v < 16; v++ {
			var s []rune
			if v&8 != 0 {
				if len(loopM) == 0 {
					continue
				}
				s = append(s, loopM[0])
			}
			for i := range ch.Landmarks {
				if len(ch.Landmarks[i].Alternatives) == 0 {
					continue
				}
				a := pickAlt(cc, i)
				n := a.MinRepeat
				if v&4 != 0 {
					n = a.MaxRepeat
				}
				s = append(s, piece(a, v&1, (v>>1)&1, n, false)...)
			}
			if len(s) <= 28 {
				res = append(res, s)
			}
		}
	}
	// random part
	for k := 0; k < count; k++ {
		s := append([]rune{}, prefixes[rng.Intn(len(prefixes))]...)
		for i := range ch.Landmarks {
			alts := ch.Landmarks[i].Alternatives
			if len(alts) == 0 {
				continue
			}
			if i > 0 {
				s = append(s, gaps[rng.Intn(len(gaps))]...)
			}
			a := &alts[rng.Intn(len(alts))]
			n := a.MinRepeat - 1 + rng.Intn(a.MaxRepeat-a.MinRepeat+3)
			if rng.Intn(3) == 0 {
				n = a.MinRepeat
			}
			s = append(s, piece(a, rng.Intn(3), rng.Intn(3), n, rng.Intn(10) == 0)...)
			if a.LeadingWhitespaceSet == nil && a.TrailingWhitespaceSet == nil && rng.Intn(8) == 0 {
				s = append(s, ' ')
			}
		}
		if rng.Intn(6) == 0 {
			s = append(s, 'z')
		}
		if len(s) > 28 {
			s = s[:28]
		}
		res = append(res, s)
	}
	return res
}

// lalInputs: the literal the finder searches, after loop-set characters, alone and planted into the
// pattern-directed inputs.
func lalInputs(rng *rand.Rand, l *syntax.LiteralAfterLoop, base [][]rune, count int) [][]rune {
	n := lalNeedleOf(l)
	var lits [][]rune
	if len(n.str) > 0 {
		lits = append(lits, n.str, n.str[:len(n.str)-1])
		if n.cmp != nil {
			up := make([]rune, len(n.str))
			for i, r := range n.str {
				up[i] = unicode.ToUpper(r)
			}
			lits = append(lits, up)
		}
	} else {
		for _, c := range n.chars {
			lits = append(lits, []rune{c})
		}
	}
	loopM := setMembers(l.LoopNode.Set, 3)
	var res [][]rune
	for len(res) < count && len(lits) > 0 {
		var s []rune
		if rng.Intn(3) == 0 {
			s = append(s, 'z')
		}
		for k := rng.Intn(3); k > 0 && len(loopM) > 0; k-- {
			s = append(s, loopM[rng.Intn(len(loopM))])
		}
		s = append(s, lits[rng.Intn(len(lits))]...)
		if len(base) > 0 && rng.Intn(2) == 0 {
			b := base[rng.Intn(len(base))]
			if len(b) > 12 {
				b = b[:12]
			}
			p := rng.Intn(len(b) + 1)
			s = append(append(append([]rune{}, b[:p]...), s...), b[p:]...)
		} else {
			for k := rng.Intn(3); k > 0 && len(loopM) > 0; k-- {
				s = append(s, loopM[rng.Intn(len(loopM))])
			}
			s = append(s, lits[rng.Intn(len(lits))]...)
		}
		res = append(res, s)
	}
	return res
}

// mutateInputs: whitespace / loop-set characters inserted, a rune doubled or removed at every position of
// the short pattern-directed inputs
func mutateInputs(base [][]rune, ins []rune, limit int) [][]rune {
	var res [][]rune
	for _, in := range base {
		if len(in) == 0 || len(in) > 12 {
			continue
		}
		for p := 0; p <= len(in); p++ {
			for _, r := range ins {
				res = append(res, append(append(append([]rune{}, in[:p]...), r), in[p:]...))
			}
			if p < len(in) {
				res = append(res, append(append(append([]rune{}, in[:p+1]...), in[p]), in[p+1:]...))
				res = append(res, append(append([]rune{}, in[:p]...), in[p+1:]...))
			}
			if len(res) >= limit {
				return res
			}
		}
	}
	return res
}

func findVsNaive(re *regexp2.Regexp, text []rune, s int) (want, got string, differs bool) {
	defer func() {
		if r := recover(); r != nil {
			want, got, differs = "no panic", fmt.Sprint("PANIC: ", r), true
		}
	}()
	m, err := re.FindRunesMatchStartingAt(text, s)
	nm, nerr := regexp2.VerifNaiveScan(re, text, s, s, -1, false)
	if err != nil || nerr != nil {
		return "", "", false
	}
	a, b := renderFull(nm), renderFull(m)
	return a, b, a != b
}

// compareOnText: find against the naive scan from every start offset of one input
func compareOnText(re *regexp2.Regexp, text []rune) (start int, want, got string, differs bool) {
	for s := 0; s <= len(text); s++ {
		if a, b, d := findVsNaive(re, text, s); d {
			return s, a, b, true
		}
	}
	return 0, "", "", false
}

type loopFinding struct {
	text      []rune
	start     int
	want, got string
}

func searchLoopViolation(cs *loopCase, fo *syntax.FindOptimizations, budget int) *loopFinding {
	re, inputs := searchInputs(cs.asSets())
	if re == nil {
		return nil
	}
	rng := rand.New(rand.NewSource(cs.Seed ^ 0x5eed))
	base := inputs
	var ins []rune
	if fo.LandmarkChain != nil {
		inputs = append(inputs, chainInputs(rng, fo.LandmarkChain, 120)...)
		ins = append(append(ins, ' '), setMembers(fo.LandmarkChain.LeadingLoopSet, 1)...)
	}
	if fo.LiteralAfterLoop != nil && fo.LiteralAfterLoop.LoopNode != nil && fo.LiteralAfterLoop.LoopNode.Set != nil {
		inputs = append(inputs, lalInputs(rng, fo.LiteralAfterLoop, base, 120)...)
		ins = append(ins, setMembers(fo.LiteralAfterLoop.LoopNode.Set, 2)...)
		n := lalNeedleOf(fo.LiteralAfterLoop)
		if len(n.str) > 0 {
			ins = append(ins, n.str[0])
		} else {
			ins = append(ins, n.chars[0])
		}
	}
	inputs = append(inputs, mutateInputs(base, ins, budget)...)
	if len(inputs) > budget {
		inputs = inputs[:budget]
	}
	seen := map[string]bool{}
	for _, in := range inputs {
		k := string(in)
		if seen[k] {
			continue
		}
		seen[k] = true
		if s, a, b, d := compareOnText(re, in); d {
			return &loopFinding{text: in, start: s, want: a, got: b}
		}
	}
	return nil
}

// ---------------------------------------------------------------------------------------------
// the check

type loopPrepared struct {
	tree *syntax.RegexTree
	gt   *gen.GoTree
	mode string // chain | lal
}

// topChildren: the number of children of the top concatenation as findRequiredLandmarkChain and
// findLiteralFollowingLeadingLoop see it (unwrapTransparentNodes, then Concatenate)
func topChildren(root *syntax.RegexNode) int {
	n := root
	for n != nil && (n.T == syntax.NtAtomic || n.T == syntax.NtCapture || n.T == syntax.NtGroup) && len(n.Children) == 1 {
		n = n.Children[0]
	}
	if n != nil && n.T == syntax.NtConcatenate {
		return len(n.Children)
	}
	return 1
}

// firstLoopChild: the first child of the top concatenation, unwrapped — the loop both analyses start from
// when they run on the whole pattern
func firstLoopChild(root *syntax.RegexNode) *syntax.RegexNode {
	unwrap := func(n *syntax.RegexNode) *syntax.RegexNode {
		for n != nil && (n.T == syntax.NtAtomic || n.T == syntax.NtCapture || n.T == syntax.NtGroup) && len(n.Children) == 1 {
			n = n.Children[0]
		}
		return n
	}
	n := unwrap(root)
	if n == nil || n.T != syntax.NtConcatenate || len(n.Children) == 0 {
		return nil
	}
	return unwrap(n.Children[0])
}

// leadingPosLook replicates findLeadingPositiveLookahead (prefixanalyzer.go): the lookahead whose body
// newFindOptimizations analyses when the whole pattern gives no useful search.
func leadingPosLook(node *syntax.RegexNode) (*syntax.RegexNode, bool) {
	for {
		if node.Options&syntax.RightToLeft != 0 {
			return nil, false
		}
		switch node.T {
		case syntax.NtPosLook:
			return node, false
		case syntax.NtBol, syntax.NtEol, syntax.NtBeginning, syntax.NtStart, syntax.NtEndZ, syntax.NtEnd,
			syntax.NtBoundary, syntax.NtECMABoundary, syntax.NtNegLook, syntax.NtEmpty:
			return nil, true
		case syntax.NtAtomic, syntax.NtCapture:
			node = node.Children[0]
			continue
		case syntax.NtLoop, syntax.NtLazyloop:
			if node.M < 1 {
				return nil, false
			}
			l, _ := leadingPosLook(node.Children[0])
			return l, false
		case syntax.NtConcatenate:
			for _, ch := range node.Children {
				l, keep := leadingPosLook(ch)
				if l != nil || !keep {
					return l, false
				}
			}
			return nil, true
		default:
			return nil, false
		}
	}
}

func c04LoopsCheck(c *core.Ctx, cases []loopCase) []core.Outcome {
	outs := make([]core.Outcome, len(cases))
	prep := make([]*loopPrepared, len(cases))
	var idx []int
	var send []string
	for i := range cases {
		cs := &cases[i]
		o := &outs[i]
		o.Key = fmt.Sprintf("%d|%v|%s|%s", cs.Opts, cs.CodeGen, cs.Pattern, string(cs.Text))
		t, err := safeParse(cs.Pattern, syntax.ParseOptions{RegexOptions: syntax.RegexOptions(cs.Opts), CodeGen: cs.CodeGen})
		if err != nil || t == nil {
			o.Buckets = append(o.Buckets, "compile-error")
			continue
		}
		fo := t.FindOptimizations
		mode := "other"
		if fo != nil && t.Options&syntax.RightToLeft == 0 {
			switch {
			case fo.FindMode == syntax.RequiredLandmarkChain_LeftToRight && fo.LandmarkChain != nil:
				mode = "chain"
			case fo.FindMode == syntax.LiteralAfterLoop_LeftToRight && fo.LiteralAfterLoop != nil && fo.LiteralAfterLoop.LoopNode != nil:
				mode = "lal"
			}
		}
		o.Buckets = append(o.Buckets, "mode="+mode, "source="+strings.SplitN(cs.Source, ":", 2)[0])
		if mode == "other" {
			continue
		}
		gt := gen.FromGoTree(t)
		if gt.Unsupported != "" {
			why := strings.SplitN(gt.Unsupported, " ", 2)[0]
			if why == "node" {
				why = strings.ReplaceAll(gt.Unsupported, " ", "-")
			}
			o.Buckets = append(o.Buckets, "tree-unsupported:"+why)
			continue
		}
		prep[i] = &loopPrepared{tree: t, gt: gt, mode: mode}
		idx = append(idx, i)
		k2 := 0
		if look, _ := leadingPosLook(t.Root); look != nil && len(look.Children) == 1 {
			k2 = topChildren(look.Children[0])
			o.Buckets = append(o.Buckets, "leading-lookahead")
		}
		send = append(send, fmt.Sprintf("(c04 loopfacts %d %s %d)", topChildren(t.Root), gt.Sexp, k2))
		o.Nontrivial = true
	}
	res, err := c.RunDriver(send)
	if err != nil {
		for i := range outs {
			if outs[i].Fail == nil {
				outs[i].Fail = core.DriverFailure(err)
				break
			}
		}
		return outs
	}
	for n, i := range idx {
		c04LoopsCompare(c, &cases[i], prep[i], res[n], &outs[i])
	}
	return outs
}

func c04LoopsCompare(c *core.Ctx, cs *loopCase, pp *loopPrepared, answer string, o *core.Outcome) {
	prop := c.Property
	own, look, err := parseLoopFacts(answer)
	if err != nil {
		o.Fail = &core.Failure{Kind: "correspondence-break", Key: "L:driver-answer",
			Summary:  fmt.Sprintf("leg L cannot read the Lean driver's answer (%v): pattern %q opts %d codegen=%v", err, cs.Pattern, cs.Opts, cs.CodeGen),
			Expected: "(ok (chain …) (lal …) (lalprefix …) (look …))", Got: answer}
		return
	}
	fo := pp.tree.FindOptimizations
	v := &loopVal{gt: pp.gt}
	add := func(b ...string) { o.Buckets = append(o.Buckets, b...) }
	reason, record := "", ""
	first := firstLoopChild(pp.tree.Root)
	switch pp.mode {
	case "chain":
		ch := fo.LandmarkChain
		record = describeChain(ch)
		add(fmt.Sprintf("landmarks=%d", len(ch.Landmarks)))
		for _, lm := range ch.Landmarks {
			switch n := len(lm.Alternatives); {
			case n >= 3:
				add("alts=3+")
			default:
				add(fmt.Sprintf("alts=%d", n))
			}
			for _, a := range lm.Alternatives {
				if len(a.Literal) > 0 {
					add("core=lit")
				} else {
					add("core=set")
				}
				if a.LeadingWhitespaceSet != nil {
					add("ws=lead")
				}
				if a.TrailingWhitespaceSet != nil {
					add("ws=trail")
				}
				if a.LeadingWhitespaceSet == nil && a.TrailingWhitespaceSet == nil {
					add("ws=none")
				}
				if a.Set != nil && a.RequireWhitespaceAfter {
					add("set-core-required-trailing-ws")
				}
			}
		}
		if first == nil || first.Set != ch.LeadingLoopSet {
			// newFindOptimizations fell back to the body of a leading positive lookahead
			add("record-from-lookahead-body")
		}
		var dropped int
		tag := "validated:chain"
		reason, dropped = v.validateChain(ch, own.chain)
		if reason != "" && look != nil {
			// look_loopFacts_sound: what Lean proves about the lookahead's body holds at every match start
			if r2, d2 := v.validateChain(ch, look.chain); r2 == "" {
				reason, dropped, tag = "", d2, "validated:look-chain"
			}
		}
		if reason == "" {
			add(tag)
			if dropped > 0 {
				add(fmt.Sprintf("dropped-landmarks=%d", dropped))
			}
		}
	case "lal":
		l := fo.LiteralAfterLoop
		record = describeLal(l)
		switch {
		case l.String != "" && l.StringIgnoreCase:
			add("lal=string-ignore-case")
		case l.String != "":
			add("lal=string")
		case len(l.Chars) > 0:
			add("lal=chars")
		default:
			add("lal=char")
		}
		if l.LoopNode.Set == nil {
			reason = "no-loop-set"
			break
		}
		if first != l.LoopNode {
			add("record-from-lookahead-body")
		}
		r1, r2 := v.validateLal(l, own.lal), v.validateLalPrefix(l, own.pre)
		r3, r4 := "lean-none", "lean-none"
		if look != nil {
			// published_look_literalAfterLoop_sound
			r3, r4 = v.validateLal(l, look.lal), v.validateLalPrefix(l, look.pre)
		}
		switch {
		case r1 == "":
			add("validated:lal")
			if r2 == "" {
				add("also-validated:lalprefix")
			}
		case r2 == "":
			add("validated:lalprefix")
		case r3 == "":
			add("validated:look-lal")
		case r4 == "":
			add("validated:look-lalprefix")
		case r1 == "lean-none" && r2 == "lean-none" && r3 == "lean-none" && r4 == "lean-none":
			reason = "lean-none"
		case r1 == "lal-literal" || r2 == "lal-literal" || r3 == "lal-literal" || r4 == "lal-literal":
			reason = "lal-literal"
		default:
			reason = "loop-set"
		}
	}
	violation := func(f *loopFinding) {
		cs.Text, cs.Start = f.text, f.start
		how := "the published record is validated by Lean's proved record"
		if reason != "" {
			how = "the published record is NOT validated by Lean's proved record (" + reason + ")"
		}
		o.Fail = &core.Failure{Kind: "impl-violation", Key: prop + ":loopfact-" + pp.mode,
			Summary: fmt.Sprintf("find differs from the scan with all acceleration disabled: pattern %q opts %d codegen=%v input %q start %d; %s; published: %s",
				cs.Pattern, cs.Opts, cs.CodeGen, string(f.text), f.start, how, record),
			Expected: f.want, Got: f.got}
	}
	// a witness input is always compared (corpus, replay)
	if len(cs.Text) > 0 {
		if re, _ := safeCompile(cs.Pattern, cs.compileOpts()...); re != nil {
			add("witness-input")
			if s, a, b, d := compareOnText(re, cs.Text); d {
				violation(&loopFinding{text: cs.Text, start: s, want: a, got: b})
				return
			}
		}
	}
	if reason == "" {
		return
	}
	add("not-validated:" + reason)
	// Lean's parse may be too coarse: search for an input the finder gets wrong
	if f := searchLoopViolation(cs, fo, 2500); f != nil {
		violation(f)
		return
	}
	o.Fail = &core.Failure{Kind: "correspondence-break", Key: prop + ":loopfact-not-validated:" + pp.mode + ":" + reason,
		Summary: fmt.Sprintf("the published %s record is not validated by the record Lean proves (%s) and no failing input was found: pattern %q opts %d codegen=%v; published: %s",
			pp.mode, reason, cs.Pattern, cs.Opts, cs.CodeGen, record),
		Expected: "published record = Lean's record (landmarks after the first may be dropped; the literal implied by lal / lalprefix)", Got: record + "   lean: " + answer}
}

func (c *loopCase) compileOpts() []regexp2.CompileOption {
	o := []regexp2.CompileOption{regexp2.RegexOptions(c.Opts)}
	if c.CodeGen {
		o = append(o, regexp2.OptionIsCodeGen())
	}
	return o
}

// c04RegisterLoops runs leg L; div scales the generated part down (C03 runs a fifth of C04's).
func c04RegisterLoops(c *core.Ctx, div int) {
	if div < 1 {
		div = 1
	}
	g := &loopsGen{}
	core.RunLeg(c, core.Leg[loopCase]{
		Name: "L", Kind: "correspondence(proved validator)+oracle(naive-scan)",
		Rule: "patterns: a corpus (the witnesses of the defects found in the landmark-chain and literal-after-loop finders, hand-made chains with captures, alternations, whitespace loops, anchors and lookaheads between the landmarks, literal-after-loop shapes: string, ignore-case string, character, character list, alternation with a common prefix, counted loops; each with and without the code-gen analyses and with witness inputs), then 35% leg V's stream (random full-syntax ASTs biased to the finder shapes, harvested patterns) and 65% a directed stream: a leading loop ([xy]* \\w* \\s* [^,]* .* [a-c]+ \\d*, lazy, atomic, captured) followed by 3-6 items (literals over {a,b,c,x,space}, small sets, bounded set loops, \\s* / \\s+, captures and alternations of `ws? core ws?`, \\b ^ (?=a)) or by the shapes findLiteralFollowingLeadingLoop reads, options None / IgnoreCase / Singleline / Multiline / RE2 / ECMAScript; 4% of the directed shapes as the body of a leading lookahead in front of \\w* or \\S*. Each pattern is parsed by syntax.Parse; when the find mode is RequiredLandmarkChain_LeftToRight or LiteralAfterLoop_LeftToRight the engine's own tree, converted by gen.FromGoTree, goes to the Lean driver with the number of children of the top concatenation; Lean returns the chain (chainOf), the characters after the loop (lalOf) and the leading prefix after the loop (lalPrefixOf) it proves true of every match, and the same three records for the body of a leading positive lookahead (found as findLeadingPositiveLookahead finds it; the engine publishes that body's record when the whole pattern gives no search); a published record is validated against the pattern's records or against the lookahead body's. Chain: LeadingLoopSet equals Lean's loop test; the published landmarks are a sublist of Lean's with the same first element; landmarks equal alternative by alternative (whitespace sets and their required flags, literal runes, set with MinRepeat/MaxRepeat). Literal after loop: Lean's loop test is included in LoopNode.Set and the searched String (case-sensitive or under the comparison indexOfLiteralAfterLoop uses) / Chars / Char is implied by Lean's characters or by Lean's prefix. All set comparisons are rune-exact on the boundary points of both sides (range ends, single runes, Unicode-category transitions, ±1, one interior rune per gap). A record that is not validated starts a search (pattern-directed inputs, texts built from the published record: landmarks in order behind loop-set characters and whitespace, gaps, near misses, set runs of MinRepeat-1..MaxRepeat+1, whitespace/loop characters inserted at every position), every start offset: FindRunesMatchStartingAt against the naive scan hook; a difference → impl-violation with that input, none → correspondence-break. Witness inputs are always compared. non-trivial = one of the two find modes and the tree converted",
		N:    c.N(3000, 60000) / div, Corpus: loopsCorpus, Gen: g.next, Check: c04LoopsCheck, Batch: 4000,
	})
}
