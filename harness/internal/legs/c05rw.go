package legs

import (
	"fmt"
	"math/rand"
	"os"
	"strings"

	"rvharness/internal/core"
	"rvharness/internal/gen"

	regexp2 "github.com/dlclark/regexp2/v2"
	"github.com/dlclark/regexp2/v2/syntax"
)

// C05 leg Rw — the proved model of the remaining tree rewrites (Model/RewriteDecisions.lean): alternation
// prefix factoring (extractCommonPrefixText, extractCommonPrefixOneNotoneSet), the alternation block of
// reduceAtomic (Empty first / trimming / reordering), with the un-gated reductions they trigger
// (alternation → set merging, adjacent loops and strings of a concatenation, makeLoopAtomic), and the
// placement of the bump-along marker.
//
// Each pattern is parsed with syntax.VerifDisableRewrites on and off. Both trees are exported as the n-ary
// mirror type (gen.RNodeFromGoTree). Lean applies its model of the gated rewrites to the UN-rewritten tree
// (reduceAll) and validates the result against the engine's rewritten tree with the proved certifier of leg
// Cz (cert), which accepts exactly the auto-atomic / ending-backtracking differences and demands equality
// everywhere else. So: certified = the engine's tree is what the model decides, up to differences that are
// themselves certified (Props.C05.rewrites_certified: same find from every start). A shape difference
// (cert error `other`) means model ≠ code at a rewrite site.

type rwGen struct{ g *engGen }

// rwDirected: alternations whose branches share prefixes (text, sets, fixed and variable loops, atomic
// loops), in the contexts the rewrites distinguish (bare, in a concatenation, under a capture, inside an
// atomic group, inside lookarounds of both directions, under a loop), over a tiny alphabet so that merging,
// coalescing and re-factoring of the inner alternation happen.
func rwDirected(rng *rand.Rand) czCase {
	pick := func(xs []string) string { return xs[rng.Intn(len(xs))] }
	lits := []string{"a", "b", "c", "ab", "ac", "abc", "abd", "ba", "aa", "aab", "b", "a", "é", "-"}
	pre := []string{"a", "ab", `\d`, `\w`, "[ab]", "[^a]", "a{2}", `\d{2}`, "a{2}?", "a{2}", "a{2}?", "[ab]{3}", "(?>a{2})", "(?>a+)", "a+", "a*", `\d+`, "a+?", "[^b]{2}", "(?>[ab]*)", ".", `\s`}
	tail := []string{"", "b", "c", "bc", "b*", "c+", "[bc]", `\d`, "x", "(?:b|c)", "(b)", "b?", "a", "a*", "$", `\b`, "cd", "d", "(?=c)", `\1`}
	branch := func() string {
		switch rng.Intn(6) {
		case 0:
			return pick(lits)
		case 1:
			return pick(lits) + pick(tail)
		case 2, 3:
			return pick(pre) + pick(tail)
		case 4:
			return pick(pre) + pick(lits) + pick(tail)
		default:
			return ""
		}
	}
	n := 2 + rng.Intn(4)
	var bs []string
	shared := pick(pre)
	sharedLit := pick(lits)
	mode := rng.Intn(4)
	for i := 0; i < n; i++ {
		switch {
		case mode == 0 && rng.Intn(4) != 0:
			bs = append(bs, shared+pick(tail)+pick(tail))
		case mode == 1 && rng.Intn(4) != 0:
			bs = append(bs, sharedLit+pick(tail))
		case mode == 2 && rng.Intn(3) != 0:
			bs = append(bs, pick(lits))
		default:
			bs = append(bs, branch())
		}
	}
	alt := strings.Join(bs, "|")
	var p string
	nested := false
	switch rng.Intn(12) {
	case 0:
		p = alt
	case 1:
		p = "(?:" + alt + ")" + pick(tail)
	case 2:
		p = pick([]string{"x", "a", "a*", `\d`}) + "(?:" + alt + ")" + pick(tail)
	case 3:
		p = "(" + alt + ")" + pick(tail)
	case 4, 5:
		p = "(?>" + alt + ")" + pick(tail)
	case 6:
		p = "x(?>" + alt + ")"
	case 7:
		p = "(?=" + alt + ")" + pick(lits)
	case 8:
		p = pick(lits) + "(?<=" + alt + ")"
	case 9:
		p = "(?:" + alt + ")" + pick([]string{"*", "+", "?", "{2}", "*?"}) + pick(tail)
	case 10:
		// a nested alternation is flattened into the outer one in the un-rewritten tree, while the engine
		// factors the inner one first: the un-rewritten tree does not determine the result (counted, lenient)
		p = "(?>(?:" + alt + ")|" + pick(lits) + ")"
		nested = true
	default:
		p = "(?(" + pick([]string{"a", "?=a", "?!b"}) + ")" + alt + ")"
	}
	opts := []regexp2.RegexOptions{0, 0, 0, 0, regexp2.Multiline, regexp2.RE2, regexp2.IgnoreCase, regexp2.Singleline, regexp2.RightToLeft, regexp2.ExplicitCapture}
	src := "rw-directed"
	if nested {
		src = "rw-nested"
	}
	return czCase{Pattern: p, Opts: int32(opts[rng.Intn(len(opts))]), CodeGen: rng.Intn(4) == 0, Seed: rng.Int63(), Source: src}
}

func (z *rwGen) next(rng *rand.Rand, i int) czCase {
	if rng.Intn(2) == 0 {
		return rwDirected(rng)
	}
	z.g.queue = z.g.queue[:0]
	z.g.fill(rng)
	q := z.g.queue
	cs := czCase{Pattern: q[0].Pattern, Opts: q[0].Opts, CodeGen: q[0].CodeGen, Source: q[0].Source, Seed: rng.Int63()}
	for _, e := range q {
		if e.RawHex == "" {
			cs.Texts = append(cs.Texts, e.Text)
		}
	}
	z.g.queue = z.g.queue[:0]
	return cs
}

var rwCorpus = []czCase{
	{Pattern: `abc|abd`, Source: "corpus"},
	{Pattern: `abc|abd|ae|x`, Source: "corpus"},
	{Pattern: `ab|ab`, Source: "corpus"},
	{Pattern: `\d12|\d34|\w5`, Source: "corpus"},
	{Pattern: `a{2}x|a{2}y`, Source: "corpus"},
	{Pattern: `a{2}x|a{3}y`, Source: "corpus"},
	{Pattern: `a+x|a+y`, Source: "corpus"},
	{Pattern: `a+?x|a+?y`, Source: "corpus"},
	{Pattern: `(?>a+)x|(?>a+)y`, Source: "corpus"},
	{Pattern: `(?>abc|abd)e`, Source: "corpus"},
	{Pattern: `(?>hi|there|hello)x`, Source: "corpus"},
	{Pattern: `(?>a|ab||b)x`, Source: "corpus"},
	{Pattern: `(?>|a)x`, Source: "corpus"},
	{Pattern: `(?>ax|by|az)c`, Source: "corpus"},
	{Pattern: `a|b|cd|e|f`, Source: "corpus"},
	{Pattern: `abb*|ac`, Source: "corpus"},
	{Pattern: `(?<=abc|abd)x`, Source: "corpus"},
	{Pattern: `abc|abd`, Opts: int32(regexp2.RightToLeft), Source: "corpus"},
	{Pattern: `(?i)abc|abd`, Source: "corpus"},
	{Pattern: `x(?:ab|ac)`, Source: "corpus"},
	{Pattern: `\w+x|\w+y`, Source: "corpus"},
	{Pattern: `([ab]{3}b\b||-||b)b?`, Source: "corpus"},
	// fixed loops of different kinds, both made atomic before the ending walk reduces the alternation again
	{Pattern: `a{2}?bc+|a{2}?(?:b|c)[bc]|a{2}?abc|a{2}?$b*|aab`, Opts: int32(regexp2.IgnoreCase), CodeGen: true, Source: "corpus"},
	{Pattern: `a{2}?$b*|a{2}b`, Source: "corpus"},
	{Pattern: `x(?:a{2}?c|a{2}b|a{2}?d)`, Source: "corpus"}, // Empty between two letters: they are not merged, also not later
}

// RW_DEBUG=<file>: append every pair that is not certified
var rwDebug = os.Getenv("RW_DEBUG")

func rwLog(format string, args ...any) {
	if rwDebug == "" {
		return
	}
	if f, err := os.OpenFile(rwDebug, os.O_APPEND|os.O_CREATE|os.O_WRONLY, 0o644); err == nil {
		fmt.Fprintf(f, format, args...)
		f.Close()
	}
}

// rwAtomicDepth: the maximal number of Atomic nodes on a path of the tree
func rwAtomicDepth(s string) int {
	var stack []bool
	depth, best := 0, 0
	for i := 0; i < len(s); i++ {
		switch s[i] {
		case '(':
			at := strings.HasPrefix(s[i:], "(atomic ")
			stack = append(stack, at)
			if at {
				depth++
				if depth > best {
					best = depth
				}
			}
		case ')':
			if n := len(stack); n > 0 {
				if stack[n-1] {
					depth--
				}
				stack = stack[:n-1]
			}
		}
	}
	return best
}

type rwPrepared struct {
	gt       *gen.GoTree
	re2      bool
	n0, n1   string // n-ary trees
	p0, p1   string // FromGoTree patterns
	directed bool
}

func rwCheck(c *core.Ctx, cases []czCase) []core.Outcome {
	outs := make([]core.Outcome, len(cases))
	prep := make([]*rwPrepared, len(cases))
	var send []string
	type ref struct {
		i    int
		kind string
	}
	var refs []ref
	for i := range cases {
		cs := &cases[i]
		o := &outs[i]
		o.Key = fmt.Sprintf("%d|%v|%s", cs.Opts, cs.CodeGen, cs.Pattern)
		if cs.Text != nil {
			if f := czDiffer(cs, cs.Text, cs.Start); f != nil {
				f.Key = "Rw:rewrite-changes-result"
				o.Fail = f
			}
			continue
		}
		on, err := czParse(cs, false)
		if err != nil {
			o.Buckets = append(o.Buckets, "compile-error")
			continue
		}
		off, err := czParse(cs, true)
		if err != nil {
			o.Buckets = append(o.Buckets, "compile-error")
			continue
		}
		rtl := on.Options&syntax.RightToLeft != 0
		g0 := gen.FromGoTree(off)
		if g0.Unsupported != "" {
			o.Buckets = append(o.Buckets, "tree-unsupported")
			continue
		}
		g1 := gen.FromGoTreeShared(on, g0)
		r0 := gen.RNodeFromGoTree(off, g0)
		r1 := gen.RNodeFromGoTree(on, g0)
		if g1.Unsupported != "" || r0.Unsupported != "" || r1.Unsupported != "" {
			o.Buckets = append(o.Buckets, "tree-unsupported")
			continue
		}
		pp := &rwPrepared{gt: g0, re2: regexp2.RegexOptions(cs.Opts)&regexp2.RE2 != 0, n0: r0.Sexp, n1: r1.Sexp, p0: g0.Sexp, p1: g1.Sexp,
			directed: cs.Source == "rw-directed" || cs.Source == "corpus"}
		prep[i] = pp
		// (1) the denotation of the n-ary export is FromGoTree's pattern
		send = append(send, fmt.Sprintf("(c05 topat %s %s)", core.SBool(rtl), r0.Sexp))
		refs = append(refs, ref{i, "topat0"})
		send = append(send, fmt.Sprintf("(c05 topat %s %s)", core.SBool(rtl), r1.Sexp))
		refs = append(refs, ref{i, "topat1"})
		if !rtl {
			// (2) the bump-along marker sits where Lean's placeBump puts it
			send = append(send, fmt.Sprintf("(c05 bump %s)", r1.Sexp))
			refs = append(refs, ref{i, "bump"})
		}
		if r0.Sexp == r1.Sexp {
			o.Buckets = append(o.Buckets, "trees-equal")
			continue
		}
		if rwAtomicDepth(r1.Sexp) > 10 {
			// cert evaluates both alternatives of its Atomic case: exponential in the nesting depth of Atomic nodes
			o.Buckets = append(o.Buckets, "skipped:atomic-nesting>10")
			continue
		}
		t0, e0 := parseSx(g0.Sexp)
		t1, e1 := parseSx(g1.Sexp)
		if e0 != nil || e1 != nil {
			o.Buckets = append(o.Buckets, "tree-unsupported")
			continue
		}
		disj, uni, err := czOracle(g0, []*sx{t0, t1}, pp.re2)
		if err != nil {
			o.Buckets = append(o.Buckets, "tree-unsupported")
			continue
		}
		send = append(send, fmt.Sprintf("(c05 rwcert %s %s %s (disj %s) (uni %s))", core.SBool(rtl), r0.Sexp, r1.Sexp, strings.Join(disj, " "), strings.Join(uni, " ")))
		refs = append(refs, ref{i, "rwcert"})
		o.Nontrivial = true
	}
	if d := os.Getenv("RW_DUMP"); d != "" {
		if f, err := os.OpenFile(d, os.O_APPEND|os.O_CREATE|os.O_WRONLY, 0o644); err == nil {
			fmt.Fprintln(f, strings.Join(send, "\n"))
			f.Close()
		}
	}
	res, err := c.RunDriver(send)
	if err != nil {
		for i := range outs {
			if outs[i].Fail == nil {
				outs[i].Fail = core.DriverFailure(err)
				break
			}
		}
		return outs
	}
	for n, r := range refs {
		cs, pp, o := &cases[r.i], prep[r.i], &outs[r.i]
		if o.Fail != nil {
			continue
		}
		switch r.kind {
		case "topat0", "topat1":
			want := pp.p0
			if r.kind == "topat1" {
				want = pp.p1
			}
			if res[n] != want {
				o.Fail = &core.Failure{Kind: "correspondence-break", Key: "Rw:topat",
					Summary:  fmt.Sprintf("the denotation of the n-ary tree export differs from gen.FromGoTree: pattern %q opts %d", cs.Pattern, cs.Opts),
					Expected: want, Got: res[n]}
			}
		case "bump":
			switch res[n] {
			case "(ok 1 1)":
				o.Buckets = append(o.Buckets, "bump:marker-placed")
			case "(ok 1 0)":
				o.Buckets = append(o.Buckets, "bump:no-site")
			default:
				o.Fail = &core.Failure{Kind: "correspondence-break", Key: "Rw:bump-placement",
					Summary:  fmt.Sprintf("the bump-along marker of the engine's tree is not where Lean's placeBump puts it: pattern %q opts %d", cs.Pattern, cs.Opts),
					Expected: "placeBump (tree without markers) = tree", Got: res[n] + " " + pp.n1}
			}
		case "rwcert":
			rwCompare(cs, pp, res[n], o)
		}
	}
	return outs
}

func rwCompare(cs *czCase, pp *rwPrepared, answer string, o *core.Outcome) {
	a, err := parseSx(answer)
	if err != nil || a.head() != "ok" || len(a.args()) < 5 {
		o.Fail = &core.Failure{Kind: "correspondence-break", Key: "Rw:driver-answer", Summary: "unreadable driver answer for pattern " + fmt.Sprintf("%q", cs.Pattern), Got: answer}
		return
	}
	ok := a.args()[0].atom == "1"
	llSame := a.args()[1].atom == "1"
	mid := ""
	if m := a.find("mid"); m != nil && len(m.args()) == 1 {
		mid = czRender(m.args()[0])
	}
	if b := a.find("base"); b != nil && len(b.args()) == 1 {
		// the residue histogram "before": the certifier of leg Cz alone on the same pair of trees
		if b.args()[0].atom == "1" {
			o.Buckets = append(o.Buckets, "cert-alone:certified")
		} else {
			o.Buckets = append(o.Buckets, "cert-alone:other-rewrite-or-rejected")
		}
	}
	// what the model did to the un-rewritten tree
	switch {
	case mid == pp.n0:
		o.Buckets = append(o.Buckets, "model:no-modelled-rewrite")
	default:
		o.Buckets = append(o.Buckets, "model:rewrites")
	}
	if mid == pp.n1 {
		o.Buckets = append(o.Buckets, "model-tree=engine-tree")
	}
	if ok && llSame {
		if mid == pp.n0 {
			o.Buckets = append(o.Buckets, "certified:auto-atomic-only")
		} else {
			o.Buckets = append(o.Buckets, "certified:with-modelled-rewrites")
		}
		return
	}
	if ok {
		// model tree = engine tree (up to certified differences), but a rewrite case fired that the soundness
		// theorem does not cover (duplicate-collapsing merge / loop·loop … coalescing): tied, not proved
		o.Buckets = append(o.Buckets, "corresponds:unproved-case")
		return
	}
	rwLog("PATTERN %q opts %d src %s\n  off %s\n  on  %s\n  mid %s\n  ans %s\n", cs.Pattern, cs.Opts, cs.Source, pp.n0, pp.n1, mid, answer)
	other := false
	var alarms []string
	kf2 := false
	for _, e := range a.find("errs").args() {
		if e.head() == "pending" && czKF2(pp.gt, pp.re2, e.args()[0], e.args()[1].int()) {
			kf2 = true
		}
	}
	for _, e := range a.find("errs").args() {
		switch e.head() {
		case "other":
			other = true
			o.Buckets = append(o.Buckets, "residue:other-"+e.args()[0].atom)
		case "blocked":
			o.Buckets = append(o.Buckets, "residue:blocked")
			alarms = append(alarms, czRender(e))
		case "pending":
			why := e.args()[1].int()
			if czKF2(pp.gt, pp.re2, e.args()[0], why) || (kf2 && why == 17) {
				o.Buckets = append(o.Buckets, "known-finding-KF2")
				continue
			}
			o.Buckets = append(o.Buckets, "residue:pending")
			alarms = append(alarms, czRender(e))
		}
	}
	o.Buckets = append(o.Buckets, "pattern-with-residue")
	// the model's tree and the engine's tree differ (beyond certified auto-atomic / ending differences): search for
	// an input on which the rewritten and the un-rewritten pattern differ
	if text, start, f := czSearch(cs); f != nil {
		cs.Text, cs.Start = text, start
		f.Key = "Rw:rewrite-changes-result"
		f.Summary = strings.Replace(f.Summary, "a rewrite the certifier rejects", "a rewrite that is not what the proved model decides", 1)
		o.Fail = f
		return
	}
	if ks := a.find("ks"); ks != nil && len(ks.args()) == 1 && ks.args()[0].atom == "1" {
		// an alternation with adjacent branches that start with the same fixed loop in different kinds: what the
		// second reduction (ending walk, after findAndMakeLoopsAtomic) factors depends on which of them the
		// auto-atomic pass changed; the model's two readings cover none / all, a mixed outcome is counted here
		o.Buckets = append(o.Buckets, "residue:fixed-loop-kinds-after-auto-atomic")
		return
	}
	if !pp.directed {
		// general patterns: nested alternations (flattened in the un-rewritten tree), rewritten places inside loop
		// bodies in tail position, … — the un-rewritten tree does not determine the engine's result; counted
		return
	}
	_, _ = alarms, other
	o.Fail = &core.Failure{Kind: "correspondence-break", Key: "Rw:model-differs-from-engine",
		Summary:  fmt.Sprintf("the engine's rewritten tree is not what Lean's model of the rewrite decisions computes from the un-rewritten tree: pattern %q opts %d", cs.Pattern, cs.Opts),
		Expected: "model: " + mid, Got: "engine: " + pp.n1 + " cert: " + czRender(a.find("errs"))}
}

func c05RegisterRw(c *core.Ctx) {
	z := &rwGen{g: &engGen{allowRTL: true, perPat: 8, maxLen: 10, biasRewrite: true}}
	core.RunLeg(c, core.Leg[czCase]{
		Name: "Rw", Kind: "correspondence(rewrite decisions)+certifier",
		Rule: "half directed patterns (alternations of two to five branches that share a text prefix, a set / fixed-loop / variable-loop / atomic-loop prefix, or nothing, over a tiny alphabet so that merging, coalescing and re-factoring happen; bare, in a concatenation, under a capture, in an atomic group, in lookarounds of both directions, under a loop, in a conditional; every option set incl. RightToLeft and IgnoreCase), half patterns as leg R. Each pattern is parsed with the rewrites off and on and both trees are exported as the n-ary mirror type (gen.RNodeFromGoTree). Checked: (1) Lean's denotation toPat of both exports is what gen.FromGoTree prints; (2) the bump-along marker of the rewritten tree is where Lean's placeBump puts it (Props.C05.bump_marker_sound); (3) Lean's model of the gated rewrites (Model/RewriteDecisions.lean rewriteTop, every case enabled, both readings of an alternation directly under an Atomic node) applied to the UN-rewritten tree, validated against the engine's rewritten tree by the proved certifier cert, which accepts exactly the auto-atomic / ending-backtracking differences and demands equality elsewhere: 'corresponds'; when the proved variant of the model (no duplicate-collapsing cases) computes the same tree the pattern is 'certified' (Props.C05.rewrites_certified: same find from every start). A pattern that does not correspond is searched (its directed inputs, 1500 random strings mostly over its own characters, every start offset, naive scan of both compilations): a differing input is an impl-violation; none found: correspondence-break for directed patterns, residue bucket for general ones (nested alternations are flattened in the un-rewritten tree, which then does not determine the engine's result). non-trivial = the two trees differ",
		N:    c.N(2000, 60000), Corpus: rwCorpus, Gen: z.next, Check: rwCheck, Batch: 500,
	})
}

// ---------------------------------------------------------------------------------------------------------
// Leg Rs — the UN-GATED reductions (they also run with VerifDisableRewrites): alternation → set merging and
// flattening, Nothing/Empty removal, adjacent loops and strings of a concatenation, nested concatenations.
// There is no engine tree "before" them, so the tie is compositional: the parts x1 … xn are parsed on their own
// (rewrites off) — that is what the parser hands to addChild — and Lean's one-step model reduceNode applied to
// Alternate[x1…xn] / Concatenate[x1…xn] must be EXACTLY the engine's tree of (?:x1)|…|(?:xn) resp.
// (?:x1)…(?:xn). On a difference the model-free oracle runs: the same parts wrapped in captures — (x1)|…|(xn),
// (x1)…(xn) — cannot be merged or coalesced, and must match the same spans.

type rsCase struct {
	Kind  string   `json:"kind"` // "cat" | "alt"
	Parts []string `json:"parts"`
	Opts  int32    `json:"opts"`
	Seed  int64    `json:"seed"`
	// set by the search
	Text  []rune `json:"text,omitempty"`
	Start int    `json:"start,omitempty"`
}

func (c *rsCase) pattern(capture bool) string {
	open := "(?:"
	if capture {
		open = "("
	}
	var ps []string
	for _, p := range c.Parts {
		ps = append(ps, open+p+")")
	}
	if c.Kind == "alt" {
		return strings.Join(ps, "|")
	}
	return strings.Join(ps, "")
}

func rsGen(rng *rand.Rand, i int) rsCase {
	pick := func(xs []string) string { return xs[rng.Intn(len(xs))] }
	catParts := []string{"a", "a", "b", "ab", "aa", "aab", "ba", "a*", "a+", "a*?", "a+?", "a{2}", "a{1,3}", "a{2,}", "a?", "(?>a*)", "(?>a+)", "(?>a{2})",
		"[ab]", "[ab]", "[ab]*", "[ab]+?", "[ab]{2}", "(?>[ab]*)", "[^a]", "[^a]", "[^a]*", "[^a]+?", "(?>[^a]+)", ".", ".*", `\d`, `\d`, `\d+`, `\d*?`, "",
		"(?:)", "(?:a|b)", "(?:ab|cd)", "(?:a|b)*", "é", "b*", "b", "(?!)", "x", "$", "a{0,2}?", "[ab]{1,2}", "[^a]{2}"}
	altParts := []string{"a", "b", "c", "a", "d", "[ab]", "[cd]", "[^a]", "[^b]", `\d`, `\w`, `\W`, `\D`, "[a-c]", "[b-d]", "ab", "cd", "", "", "(?!)", "(?:a|b)", "(?:ab|c)",
		"a*", `[\d-[5]]`, `[\w-[a]]`, ".", `[\x00-a]`, `[c-\x{10FFFF}]`, `[\x00-\x{10FFFE}]`, "é", `\s`, `[a\d]`, `[b\s]`, "x", "[^ab]", `[\x01-\x{10FFFF}]`, `\p{Lu}`, `[a\p{Lu}]`}
	n := 2 + rng.Intn(4)
	cs := rsCase{Seed: rng.Int63()}
	src := catParts
	cs.Kind = "cat"
	if rng.Intn(2) == 0 {
		cs.Kind = "alt"
		src = altParts
	}
	for j := 0; j < n; j++ {
		cs.Parts = append(cs.Parts, pick(src))
	}
	opts := []regexp2.RegexOptions{0, 0, 0, 0, regexp2.RE2, regexp2.RightToLeft, regexp2.RightToLeft, regexp2.IgnoreCase, regexp2.Singleline, regexp2.ECMAScript}
	cs.Opts = int32(opts[rng.Intn(len(opts))])
	return cs
}

var rsCorpus = []rsCase{
	{Kind: "cat", Parts: []string{"a*", "a"}},
	{Kind: "cat", Parts: []string{"a", "a*"}},
	{Kind: "cat", Parts: []string{"a*", "a*"}},
	{Kind: "cat", Parts: []string{"a{2}", "a{3}"}},
	{Kind: "cat", Parts: []string{"(?>a+)", "(?>a+)"}},
	{Kind: "cat", Parts: []string{"(?>a+)", "(?>a*)"}},
	{Kind: "cat", Parts: []string{"a+", "aab"}},
	{Kind: "cat", Parts: []string{"a+", "aab"}, Opts: int32(regexp2.RightToLeft)},
	{Kind: "cat", Parts: []string{"[^a]", "[^a]"}},
	{Kind: "cat", Parts: []string{"a", "b", "", "cd"}},
	{Kind: "cat", Parts: []string{"a", "b", "", "cd"}, Opts: int32(regexp2.RightToLeft)},
	{Kind: "cat", Parts: []string{"a*", "a"}, Opts: int32(regexp2.IgnoreCase)},
	{Kind: "alt", Parts: []string{"a", "b", "cd", "e", "f"}},
	{Kind: "alt", Parts: []string{"a", "[^b]", "c"}},
	{Kind: "alt", Parts: []string{"A", `\D`, "B"}, Opts: int32(regexp2.RE2)}, // D25
	{Kind: "alt", Parts: []string{`[\x00-a]`, `[c-\x{10FFFF}]`, "b"}},
	{Kind: "alt", Parts: []string{"a", "(?:b|c)", "", "", "(?!)"}},
	{Kind: "alt", Parts: []string{`\w`, `\W`, "a"}},
}

func rsParse(pat string, opts int32) (*syntax.RegexTree, error) {
	syntax.VerifDisableRewrites = true
	defer func() { syntax.VerifDisableRewrites = false }()
	return safeParse(pat, syntax.ParseOptions{RegexOptions: syntax.RegexOptions(opts)})
}

func rsCheck(c *core.Ctx, cases []rsCase) []core.Outcome {
	outs := make([]core.Outcome, len(cases))
	var send []string
	var idx []int
	want := map[int]string{}
	for i := range cases {
		cs := &cases[i]
		o := &outs[i]
		o.Key = fmt.Sprintf("%s|%d|%s", cs.Kind, cs.Opts, strings.Join(cs.Parts, "\x00"))
		if cs.Text != nil {
			if f := rsDiffer(cs, cs.Text, cs.Start); f != nil {
				o.Fail = f
			}
			continue
		}
		whole, err := rsParse(cs.pattern(false), cs.Opts)
		if err != nil {
			o.Buckets = append(o.Buckets, "compile-error")
			continue
		}
		rtl := whole.Options&syntax.RightToLeft != 0
		base := gen.RNodeFromGoTree(whole, nil)
		if base.Unsupported != "" {
			o.Buckets = append(o.Buckets, "tree-unsupported")
			continue
		}
		var parts []string
		bad := false
		for _, p := range cs.Parts {
			t, err := rsParse(p, cs.Opts)
			if err != nil {
				bad = true
				break
			}
			g := gen.RNodeFromGoTree(t, base)
			if g.Unsupported != "" {
				bad = true
				break
			}
			parts = append(parts, g.Sexp)
		}
		if bad {
			o.Buckets = append(o.Buckets, "tree-unsupported")
			continue
		}
		// re-export with the final class numbering (the parts may have added classes)
		base2 := gen.RNodeFromGoTree(whole, base)
		if rtl && cs.Kind == "cat" {
			// the parser stores a right-to-left concatenation reversed (reverseLeft, before reduce)
			for a, b := 0, len(parts)-1; a < b; a, b = a+1, b-1 {
				parts[a], parts[b] = parts[b], parts[a]
			}
		}
		ow := int(syntax.RegexOptions(cs.Opts) &^ (syntax.RightToLeft | syntax.IgnoreCase))
		send = append(send, fmt.Sprintf("(c05 step 0 %s 0 (%s %d (%s)))", core.SBool(rtl), cs.Kind, ow, strings.Join(parts, " ")))
		idx = append(idx, i)
		want[i] = base2.Sexp
		o.Nontrivial = true
		o.Buckets = append(o.Buckets, "kind:"+cs.Kind)
		if rtl {
			o.Buckets = append(o.Buckets, "right-to-left")
		}
	}
	res, err := c.RunDriver(send)
	if err != nil {
		for i := range outs {
			if outs[i].Fail == nil {
				outs[i].Fail = core.DriverFailure(err)
				break
			}
		}
		return outs
	}
	for n, i := range idx {
		cs, o := &cases[i], &outs[i]
		a, err := parseSx(res[n])
		if err != nil || a.head() != "ok" || len(a.args()) != 1 {
			o.Fail = &core.Failure{Kind: "correspondence-break", Key: "Rs:driver-answer", Summary: "unreadable driver answer", Got: res[n]}
			continue
		}
		got := czRender(a.args()[0])
		if got == want[i] {
			o.Buckets = append(o.Buckets, "model=engine")
			if strings.HasPrefix(got, "("+cs.Kind+" ") && strings.Count(got, "(") == strings.Count(send[n], "(")-2 {
				o.Buckets = append(o.Buckets, "nothing-reduced")
			}
			continue
		}
		if strings.Contains(got, "(base 1 () ())") {
			// canonicalize's third normal form (needs the categories' membership of one rune): not modelled
			o.Buckets = append(o.Buckets, "unmodelled:canonicalize-third-normal-form")
			continue
		}
		rwLog("STEP %s %q opts %d\n  sent %s\n  lean %s\n  go   %s\n", cs.Kind, cs.Parts, cs.Opts, send[n], got, want[i])
		// model ≠ code: does the engine's reduction change the meaning? (parts in captures cannot be merged)
		if text, start, f := rsSearch(cs); f != nil {
			cs.Text, cs.Start = text, start
			o.Fail = f
			continue
		}
		o.Fail = &core.Failure{Kind: "correspondence-break", Key: "Rs:model-differs-from-engine",
			Summary:  fmt.Sprintf("the engine's reduced %s node of the parts %q (opts %d) is not what Lean's reduceNode computes from the parts' trees", cs.Kind, cs.Parts, cs.Opts),
			Expected: "model: " + got, Got: "engine: " + want[i]}
	}
	return outs
}

func rsCompile(cs *rsCase) (plain, caps *regexp2.Regexp, err error) {
	if plain, err = safeCompile(cs.pattern(false), regexp2.RegexOptions(cs.Opts)); err != nil {
		return nil, nil, err
	}
	if caps, err = safeCompile(cs.pattern(true), regexp2.RegexOptions(cs.Opts)); err != nil {
		return nil, nil, err
	}
	return plain, caps, nil
}

func rsSpan(m *regexp2.Match) string {
	if m == nil {
		return "(none)"
	}
	return fmt.Sprintf("(ok %d %d)", m.RuneIndex, m.RuneLength)
}

func rsDifferWith(cs *rsCase, plain, caps *regexp2.Regexp, text []rune, s int) *core.Failure {
	a, e1 := regexp2.VerifNaiveScan(caps, text, s, s, -1, false)
	b, e2 := regexp2.VerifNaiveScan(plain, text, s, s, -1, false)
	if e1 != nil || e2 != nil {
		return nil
	}
	if x, y := rsSpan(a), rsSpan(b); x != y {
		return &core.Failure{Kind: "impl-violation", Key: "Rs:reduction-changes-result",
			Summary:  fmt.Sprintf("a reduction of the %s of %q (opts %d) changes the result: %q and %q differ on input %q start %d", cs.Kind, cs.Parts, cs.Opts, cs.pattern(false), cs.pattern(true), string(text), s),
			Expected: x, Got: y}
	}
	return nil
}

func rsDiffer(cs *rsCase, text []rune, s int) *core.Failure {
	plain, caps, err := rsCompile(cs)
	if err != nil {
		return nil
	}
	return rsDifferWith(cs, plain, caps, text, s)
}

func rsSearch(cs *rsCase) ([]rune, int, *core.Failure) {
	plain, caps, err := rsCompile(cs)
	if err != nil {
		return nil, 0, nil
	}
	rng := rand.New(rand.NewSource(cs.Seed))
	alpha := []rune("aabbcd5_ -\nAéxB\x00")
	for k := 0; k < 1500; k++ {
		var in []rune
		for j := 1 + rng.Intn(7); j > 0; j-- {
			in = append(in, alpha[rng.Intn(len(alpha))])
		}
		starts := []int{0}
		if regexp2.RegexOptions(cs.Opts)&regexp2.RightToLeft != 0 {
			starts = []int{len(in)}
		}
		for _, s := range starts {
			if f := rsDifferWith(cs, plain, caps, in, s); f != nil {
				return in, s, f
			}
		}
	}
	return nil, 0, nil
}

func c05RegisterRs(c *core.Ctx) {
	core.RunLeg(c, core.Leg[rsCase]{
		Name: "Rs", Kind: "correspondence(un-gated reductions, compositional)+oracle",
		Rule: "two to five parts drawn from single characters, strings, sets (positive, negated, with categories, with subtraction, near-universal), loops of the three kinds with fixed and variable counts, groups, Empty, (?!), under no option / RE2 / RightToLeft / IgnoreCase / Singleline / ECMAScript; each part is parsed on its own with the rewrites off (= the reduced child the parser hands to addChild), then Lean's reduceNode (rewrites off, every case enabled) on Alternate[parts] resp. Concatenate[parts] must equal, node for node, the engine's tree of (?:x1)|…|(?:xn) resp. (?:x1)…(?:xn). On a difference: the same parts in captures — which cannot be merged or coalesced — must match the same spans on 1500 random inputs (impl-violation with the input), else correspondence-break. non-trivial = sent to Lean",
		N:    c.N(1500, 40000), Corpus: rsCorpus, Gen: rsGen, Check: rsCheck, Batch: 500,
	})
}
