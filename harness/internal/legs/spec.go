package legs

import (
	"fmt"
	"math/rand"
	"strings"
	"time"

	"rvharness/internal/core"
	"rvharness/internal/gen"

	regexp2 "github.com/dlclark/regexp2/v2"
	"github.com/dlclark/regexp2/v2/syntax"
)

// specCase is one (pattern AST, options, input, start offset) point compared between the Go
// implementation and the Lean specification `Spec.find` (leg S of C01/C15/C20 …).
type specCase struct {
	Ast   *gen.Node `json:"ast"`
	Opts  gen.Opts  `json:"opts"`
	Text  []rune    `json:"text"`
	Start int       `json:"start"`
	// derived, for the reader of a replay
	Pattern string `json:"pattern,omitempty"`
}

func regexOptions(o gen.Opts) regexp2.RegexOptions {
	var r regexp2.RegexOptions
	if o.I {
		r |= regexp2.IgnoreCase
	}
	if o.M {
		r |= regexp2.Multiline
	}
	if o.S {
		r |= regexp2.Singleline
	}
	if o.N {
		r |= regexp2.ExplicitCapture
	}
	if o.X {
		r |= regexp2.IgnorePatternWhitespace
	}
	if o.RE2 {
		r |= regexp2.RE2
	}
	if o.RTL {
		r |= regexp2.RightToLeft
	}
	return r
}

// renderMatch is the canonical form shared with the Lean driver: (none) | (ok idx len (caps of group 1)…)
func renderMatch(m *regexp2.Match, ngroups int) string {
	if m == nil {
		return "(none)"
	}
	var b strings.Builder
	fmt.Fprintf(&b, "(ok %d %d", m.RuneIndex, m.RuneLength)
	for k := 1; k <= ngroups; k++ {
		b.WriteString(" (")
		g := m.GroupByNumber(k)
		if g != nil {
			for i, c := range g.Captures {
				if i > 0 {
					b.WriteByte(' ')
				}
				fmt.Fprintf(&b, "(%d %d)", c.RuneIndex, c.RuneLength)
			}
		}
		b.WriteByte(')')
	}
	b.WriteByte(')')
	return b.String()
}

type compiled struct {
	re      *regexp2.Regexp
	err     error
	ngroups int
}

// specCheck compares Go's find with the Lean specification's on every case.
func specCheck(prop string, extra ...regexp2.CompileOption) func(c *core.Ctx, cases []specCase) []core.Outcome {
	return func(c *core.Ctx, cases []specCase) []core.Outcome {
		outs := make([]core.Outcome, len(cases))
		lines := make([]string, len(cases))
		goAns := make([]string, len(cases))
		cache := map[string]*compiled{}
		for i := range cases {
			cs := &cases[i]
			o := &outs[i]
			ng := gen.AssignGroups(cs.Ast, cs.Opts)
			pat := cs.Ast.Print(cs.Opts)
			cs.Pattern = pat
			key := cs.Opts.String() + "\x00" + pat
			cp := cache[key]
			if cp == nil {
				opts := append([]regexp2.CompileOption{regexOptions(cs.Opts)}, extra...)
				re, err := regexp2.Compile(pat, opts...)
				cp = &compiled{re: re, err: err, ngroups: ng}
				if re != nil {
					re.MatchTimeout = 3 * time.Second
				}
				cache[key] = cp
			}
			o.Key = fmt.Sprintf("%s|%s|%s|%d", key, string(cs.Text), "", cs.Start)
			o.Nontrivial = cs.Ast.Size() > 1 && len(cs.Text) > 0
			o.Buckets = append(o.Buckets, "opts="+cs.Opts.String(), fmt.Sprintf("astsize=%d", min(cs.Ast.Size()/4*4, 40)))
			if cp.err != nil {
				o.Fail = &core.Failure{Kind: "correspondence-break", Key: "compile-error", Summary: "generated pattern does not compile: " + pat + ": " + cp.err.Error(), Expected: "compiles", Got: cp.err.Error()}
				continue
			}
			m, err := cp.re.FindRunesMatchStartingAt(cs.Text, cs.Start)
			if err != nil {
				goAns[i] = "(error)"
				o.Buckets = append(o.Buckets, "go-error")
				continue // timeouts on catastrophic patterns are not compared
			}
			goAns[i] = renderMatch(m, ng)
			if m == nil {
				o.Buckets = append(o.Buckets, "nomatch")
			} else {
				o.Buckets = append(o.Buckets, "match")
			}
			lines[i] = fmt.Sprintf("(c01 find %s %d %d %s %s)", core.SBool(cs.Opts.RTL), cs.Start, ng, cs.Ast.Sexp(cs.Opts),
				gen.EnvSexp(cs.Text, cs.Start, cs.Ast.PatRunes(), cs.Opts))
		}
		// send only the comparable cases
		var idx []int
		var send []string
		for i := range cases {
			if lines[i] != "" {
				idx = append(idx, i)
				send = append(send, lines[i])
			}
		}
		res, err := c.RunDriver(send)
		if err != nil {
			for i := range outs {
				if outs[i].Fail == nil {
					outs[i].Fail = core.DriverFailure(err)
					break
				}
			}
			return outs
		}
		for k, i := range idx {
			if res[k] == core.DriverTimeout {
				// the specification's matcher is exponential on some nested loops where the engine is not
				outs[i].Buckets = append(outs[i].Buckets, "model-timeout")
				continue
			}
			if res[k] != goAns[i] {
				// The specification is the property's definition: a disagreement IS a failing input.
				outs[i].Fail = &core.Failure{Kind: "impl-violation", Key: prop + ":spec-mismatch:" + classify(cases[i].Ast, cases[i].Opts),
					Summary:  fmt.Sprintf("find result differs from the leftmost priority-ordered backtracking specification: pattern %q options %s input %q start %d", cases[i].Pattern, cases[i].Opts, string(cases[i].Text), cases[i].Start),
					Expected: res[k], Got: goAns[i]}
			}
		}
		return outs
	}
}

// classify names the most specific construct in the pattern, as a stable failure key.
func classify(n *gen.Node, o gen.Opts) string {
	has := map[gen.Kind]bool{}
	n.Walk(func(x *gen.Node) { has[x.Kind] = true })
	var parts []string
	for _, p := range []struct {
		k gen.Kind
		s string
	}{{gen.KCondExpr, "condexpr"}, {gen.KCondRef, "condref"}, {gen.KRef, "ref"}, {gen.KLook, "look"}, {gen.KAtomic, "atomic"}, {gen.KQuant, "quant"}, {gen.KAlt, "alt"}, {gen.KCap, "cap"}, {gen.KAnchor, "anchor"}, {gen.KClass, "class"}} {
		if has[p.k] {
			parts = append(parts, p.s)
		}
	}
	if len(parts) > 3 {
		parts = parts[:3]
	}
	return strings.Join(parts, "+") + "/" + o.String()
}

// specGen draws an AST within the fragment plus one input and start offset. Several consecutive
// cases share the AST (i / perAst), so each pattern is tried on several inputs.
type specGenState struct {
	cfg     func(rng *rand.Rand) gen.Config
	perAst  int
	maxLen  int
	ast     *gen.Node
	opts    gen.Opts
	inputs  [][]rune
	pending int
}

func (s *specGenState) next(rng *rand.Rand, i int) specCase {
	if s.pending == 0 {
		for {
			cfg := s.cfg(rng)
			switch rng.Intn(6) {
			case 0:
				// the shapes the candidate finders recognise (prefixes, fixed-distance sets, counted
				// repetitions around the analysers' limits, landmark chains), when they stay in the fragment
				s.ast = biasedAst(rng, cfg)
			case 1:
				s.ast = rewriteAst(rng, cfg)
			default:
				s.ast = gen.Random(rng, cfg)
			}
			s.opts = cfg.Opts
			// the hand-made shapes are not written for every option set (ExplicitCapture turns their groups off,
			// RE2 has no backreferences): keep one only if it is in the fragment and compiles
			if k := s.ast; k != nil {
				if _, err := safeCompile(k.Print(cfg.Opts), regexOptions(cfg.Opts)); err != nil || !k.InFragment() {
					s.ast = gen.Random(rng, cfg)
				}
			}
			if cfg.AllowNullableQuant || s.ast.InFragment() {
				break
			}
		}
		s.inputs = gen.Inputs(rng, s.ast, s.perAst, s.maxLen)
		s.pending = len(s.inputs)
	}
	s.pending--
	text := s.inputs[s.pending]
	start := 0
	if s.opts.RTL {
		start = len(text)
	}
	if rng.Intn(3) == 0 {
		start = rng.Intn(len(text) + 1)
	}
	return specCase{Ast: s.ast, Opts: s.opts, Text: text, Start: start}
}

func randOpts(rng *rand.Rand, rtl bool, allowRE2 bool) gen.Opts {
	o := gen.Opts{RTL: rtl}
	if rng.Intn(3) == 0 {
		return o
	}
	o.I = rng.Intn(3) == 0
	o.M = rng.Intn(3) == 0
	o.S = rng.Intn(3) == 0
	o.N = rng.Intn(5) == 0
	o.X = rng.Intn(5) == 0
	o.RE2 = allowRE2 && rng.Intn(6) == 0
	return o
}

// specTreeCheck is leg T: the specification run on the engine's OWN tree (parsed, reduced and
// rewritten by syntax.Parse, converted structurally by gen.FromGoTree) must give the engine's result.
// Together with leg S (specification on the generator's AST) this isolates the parser/reducer from
// the writer/interpreter, and it is the tie for the Lean analyses that run on the Go tree.
func specTreeCheck(prop string) func(c *core.Ctx, cases []specCase) []core.Outcome {
	return func(c *core.Ctx, cases []specCase) []core.Outcome {
		outs := make([]core.Outcome, len(cases))
		lines := make([]string, len(cases))
		goAns := make([]string, len(cases))
		type entry struct {
			re   *regexp2.Regexp
			tree *gen.GoTree
			err  error
		}
		cache := map[string]*entry{}
		for i := range cases {
			cs := &cases[i]
			o := &outs[i]
			gen.AssignGroups(cs.Ast, cs.Opts)
			pat := cs.Ast.Print(cs.Opts)
			cs.Pattern = pat
			key := cs.Opts.String() + "\x00" + pat
			e := cache[key]
			if e == nil {
				e = &entry{}
				e.re, e.err = regexp2.Compile(pat, regexOptions(cs.Opts))
				if e.err == nil {
					e.re.MatchTimeout = 3 * time.Second
					t, err := syntax.Parse(pat, syntax.ParseOptions{RegexOptions: syntax.RegexOptions(regexOptions(cs.Opts))})
					if err != nil {
						e.err = err
					} else {
						e.tree = gen.FromGoTree(t)
					}
				}
				cache[key] = e
			}
			o.Key = fmt.Sprintf("%s|%s|%d", key, string(cs.Text), cs.Start)
			if e.err != nil {
				o.Buckets = append(o.Buckets, "compile-error")
				continue
			}
			if e.tree.Unsupported != "" {
				o.Buckets = append(o.Buckets, "tree-unsupported:"+strings.SplitN(e.tree.Unsupported, " ", 2)[0])
				continue
			}
			o.Nontrivial = len(cs.Text) > 0
			o.Buckets = append(o.Buckets, "tree-converted")
			m, err := e.re.FindRunesMatchStartingAt(cs.Text, cs.Start)
			if err != nil {
				continue
			}
			ng := e.tree.NGroups
			goAns[i] = renderMatch(m, ng)
			lines[i] = fmt.Sprintf("(c01 find %s %d %d %s %s)", core.SBool(cs.Opts.RTL), cs.Start, ng, e.tree.Sexp,
				gen.EnvSexpNamed(cs.Text, cs.Start, e.tree.Runes, cs.Opts, e.tree.Named))
		}
		var idx []int
		var send []string
		for i := range cases {
			if lines[i] != "" {
				idx = append(idx, i)
				send = append(send, lines[i])
			}
		}
		res, err := c.RunDriver(send)
		if err != nil {
			for i := range outs {
				if outs[i].Fail == nil {
					outs[i].Fail = core.DriverFailure(err)
					break
				}
			}
			return outs
		}
		for k, i := range idx {
			if res[k] == core.DriverTimeout {
				outs[i].Buckets = append(outs[i].Buckets, "model-timeout")
				continue
			}
			if res[k] != goAns[i] {
				outs[i].Fail = &core.Failure{Kind: "correspondence-break", Key: prop + ":tree-mismatch:" + classify(cases[i].Ast, cases[i].Opts),
					Summary:  fmt.Sprintf("the specification run on the engine's own reduced tree differs from the engine's result: pattern %q options %s input %q start %d", cases[i].Pattern, cases[i].Opts, string(cases[i].Text), cases[i].Start),
					Expected: res[k], Got: goAns[i]}
			}
		}
		return outs
	}
}
