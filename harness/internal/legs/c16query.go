package legs

import (
	"fmt"
	"math/rand"
	"os"
	"reflect"
	"sort"
	"strings"
	"sync"
	"unicode"
	"unicode/utf8"

	"rvharness/internal/core"

	"github.com/dlclark/regexp2/v2/syntax"
)

// C16 (and, at a small size, C05), leg Kq — the QUERY functions of syntax.CharSet.
//
// The rewrites and the prefix analyses never ask only "is r in the set": they ask MayOverlap, Equals,
// IsSingleton, GetSetChars, … and a wrong answer silently changes matching. Leg Kq draws PAIRS of classes
// (leg K's generator, the shapes canBeMadeAtomic meets, structural perturbations of a class, raw
// structures) and
//   (a) correspondence: every query function on the real CharSets must EQUAL the answer of the Lean
//       model (Model/ClassQuery.lean) on the dumped structures — the model the theorems of Props/C16.lean
//       (section "query functions") are about;
//   (b) model-free oracle: the answers are checked against MEMBERSHIP (CharIn, which leg K ties to set
//       algebra) on a rune domain: MayOverlap = false ⇒ no rune in both; Equals ⇒ same members;
//       IsSingleton(Inverse) ⇒ exactly one (non-)member, SingletonChar; GetSetChars / GetIfNRanges /
//       IsUnicodeCategoryOfSmallCharCount ⇒ exactly the members (non-members when IsNegated); IsEmpty,
//       IsAnything (un-negated, no subtraction) ⇒ nothing / everything; Hash round trip and Copy ⇒ same
//       members; containsAsciiIgnoreCaseCharacter ⇒ exactly {c, C};
//   (c) once per run: the facts about Go's unicode tables that knownDistinctSets and the small-category
//       test rely on (hypotheses of the Lean theorems), over all 1 114 112 code points.

type cqCat struct {
	Name string `json:"name"`
	Neg  bool   `json:"neg,omitempty"`
}

type cqRaw struct {
	Ranges [][2]rune `json:"ranges,omitempty"`
	Cats   []cqCat   `json:"cats,omitempty"`
	Neg    bool      `json:"neg,omitempty"`
	Any    bool      `json:"any,omitempty"`
	Sub    *cqRaw    `json:"sub,omitempty"`
}

// a set is either parsed from class text under options, or built from a structure with NewCharSetRuntime
type cqSet struct {
	Text string `json:"text,omitempty"`
	Opts int    `json:"opts,omitempty"`
	Raw  *cqRaw `json:"raw,omitempty"`
}

type cqCase struct {
	A    cqSet  `json:"a"`
	B    cqSet  `json:"b"`
	How  string `json:"how"` // how the pair was made (bucket)
	K    int    `json:"k"`   // an extra maxChars value
	Full bool   `json:"full,omitempty"`
	Salt int64  `json:"salt"`
}

// ---- building the real sets ---------------------------------------------------------------------

func cqFindSet(n *syntax.RegexNode) *syntax.CharSet {
	if n == nil {
		return nil
	}
	if n.Set != nil {
		return n.Set
	}
	for _, ch := range n.Children {
		if s := cqFindSet(ch); s != nil {
			return s
		}
	}
	return nil
}

var cqParseMu sync.Mutex

func cqParse(text string, opts int) (*syntax.CharSet, error) {
	cqParseMu.Lock() // VerifParseRaw flips package-level switches
	defer cqParseMu.Unlock()
	tree, err := syntax.VerifParseRaw(text, syntax.ParseOptions{RegexOptions: syntax.RegexOptions(opts)})
	if err != nil {
		return nil, err
	}
	s := cqFindSet(tree.Root)
	if s == nil {
		return nil, fmt.Errorf("no set node in the raw tree of %q", text)
	}
	return s, nil
}

// the serialisation format of mapHashFill, written here independently
func cqSerialize(r *cqRaw, buf []byte) []byte {
	h := byte(0)
	if r.Neg {
		h |= 1
	}
	if r.Any {
		h |= 2
	}
	buf = append(buf, h)
	le := func(n int) { buf = append(buf, byte(n), byte(n>>8), byte(n>>16), byte(n>>24)) }
	le(len(r.Ranges))
	le(len(r.Cats))
	for _, rg := range r.Ranges {
		buf = utf8.AppendRune(buf, rg[0])
		buf = utf8.AppendRune(buf, rg[1])
	}
	for _, c := range r.Cats {
		n := len(c.Name)
		if c.Neg {
			n = -n
		}
		buf = append(buf, byte(int8(n)))
		buf = append(buf, c.Name...)
	}
	if r.Sub != nil {
		buf = cqSerialize(r.Sub, buf)
	}
	return buf
}

func cqHasSurrogate(d *c16Dump) bool {
	for d != nil {
		for _, r := range d.Ranges {
			for _, e := range r {
				if e >= 0xd800 && e <= 0xdfff || e > c16Max || e < 0 {
					return true
				}
			}
		}
		d = d.Sub
	}
	return false
}

func cqRawOfDump(d *c16Dump) *cqRaw {
	if d == nil {
		return nil
	}
	r := &cqRaw{Neg: d.Negate, Any: d.Anything, Sub: cqRawOfDump(d.Sub)}
	r.Ranges = append(r.Ranges, d.Ranges...)
	for _, c := range d.Categories {
		r.Cats = append(r.Cats, cqCat{c.Cat, c.Negate})
	}
	return r
}

func (s *cqSet) build() (*syntax.CharSet, error) {
	if s.Raw != nil {
		cs := syntax.NewCharSetRuntime(string(cqSerialize(s.Raw, nil)))
		return &cs, nil
	}
	return cqParse(s.Text, s.Opts)
}

func (s *cqSet) String() string {
	if s.Raw != nil {
		return fmt.Sprintf("raw%+v", cqRawString(s.Raw))
	}
	return fmt.Sprintf("%s/%s", s.Text, c16OptName(s.Opts))
}

func cqRawString(r *cqRaw) string {
	var sb strings.Builder
	sb.WriteByte('{')
	if r.Neg {
		sb.WriteByte('^')
	}
	if r.Any {
		sb.WriteString("any ")
	}
	for _, rg := range r.Ranges {
		fmt.Fprintf(&sb, "%X-%X ", rg[0], rg[1])
	}
	for _, c := range r.Cats {
		if c.Neg {
			sb.WriteByte('!')
		}
		fmt.Fprintf(&sb, "%q ", c.Name)
	}
	if r.Sub != nil {
		sb.WriteString("- " + cqRawString(r.Sub))
	}
	sb.WriteByte('}')
	return sb.String()
}

// ---- category intervals for the Lean oracle -----------------------------------------------------

var (
	cqIvMu    sync.Mutex
	cqIvCache = map[string][][2]rune{}
)

func cqTableIntervals(ts ...*unicode.RangeTable) [][2]rune {
	var iv [][2]rune
	for _, t := range ts {
		for _, r := range t.R16 {
			if r.Stride == 1 {
				iv = append(iv, [2]rune{rune(r.Lo), rune(r.Hi)})
			} else {
				for x := rune(r.Lo); x <= rune(r.Hi); x += rune(r.Stride) {
					iv = append(iv, [2]rune{x, x})
				}
			}
		}
		for _, r := range t.R32 {
			if r.Stride == 1 {
				iv = append(iv, [2]rune{rune(r.Lo), rune(r.Hi)})
			} else {
				for x := rune(r.Lo); x <= rune(r.Hi); x += rune(r.Stride) {
					iv = append(iv, [2]rune{x, x})
				}
			}
		}
	}
	sort.Slice(iv, func(i, j int) bool { return iv[i][0] < iv[j][0] })
	var out [][2]rune
	for _, r := range iv {
		if n := len(out); n > 0 && r[0] <= out[n-1][1]+1 {
			if r[1] > out[n-1][1] {
				out[n-1][1] = r[1]
			}
		} else {
			out = append(out, r)
		}
	}
	return out
}

// member intervals of a category name as it appears in a dumped CharSet (package unicode tables)
func cqIntervals(name string) ([][2]rune, bool) {
	cqIvMu.Lock()
	defer cqIvMu.Unlock()
	if iv, ok := cqIvCache[name]; ok {
		return iv, true
	}
	var iv [][2]rune
	switch name {
	case " ":
		iv = cqTableIntervals(unicode.White_Space)
	case "W":
		iv = cqTableIntervals(unicode.L, unicode.Mn, unicode.Nd, unicode.Pc, &unicode.RangeTable{R16: []unicode.Range16{{Lo: 0x200c, Hi: 0x200d, Stride: 1}}})
	default:
		t := c16Table(name)
		if t == nil {
			return nil, false
		}
		iv = cqTableIntervals(t)
	}
	cqIvCache[name] = iv
	return iv, true
}

// ---- generation -------------------------------------------------------------------------------------

var cqShapeOpts = []int{0, 0, 0, c16E, c16RE2}

// the shapes canBeMadeAtomic meets: shorthand classes and their negations, single letters, case-folded
// letters, small sets, ranges that touch, classes with a subtraction, categories, the dot
func cqShape(rng *rand.Rand) cqSet {
	opts := cqShapeOpts[rng.Intn(len(cqShapeOpts))]
	letters := []rune("abcxyzABKSks09_ \n-")
	letter := func() rune { return letters[rng.Intn(len(letters))] }
	esc := func(r rune) string {
		var sb strings.Builder
		c16Esc(&sb, r)
		return sb.String()
	}
	switch rng.Intn(14) {
	case 0, 1, 2:
		return cqSet{Text: `[\` + string("swdSWD"[rng.Intn(6)]) + `]`, Opts: opts}
	case 3:
		return cqSet{Text: "[" + esc(letter()) + "]", Opts: opts}
	case 4:
		return cqSet{Text: "[^" + esc(letter()) + "]", Opts: opts}
	case 5:
		return cqSet{Text: "[" + esc(letter()) + "]", Opts: opts | c16I}
	case 6:
		a := letter()
		return cqSet{Text: "[" + esc(a) + esc(a+1) + esc(a+3) + "]", Opts: opts}
	case 7:
		a := rune('a' + rng.Intn(20))
		b := a + rune(rng.Intn(6))
		neg := ""
		if rng.Intn(4) == 0 {
			neg = "^"
		}
		return cqSet{Text: fmt.Sprintf("[%s%c-%c]", neg, a, b), Opts: opts}
	case 8:
		return cqSet{Text: `[a-z-[` + string(rune('a'+rng.Intn(26))) + `m-p]]`, Opts: opts &^ c16RE2}
	case 9:
		if opts&c16E != 0 {
			opts = 0
		}
		p := `\p{`
		if rng.Intn(3) == 0 {
			p = `\P{`
		}
		return cqSet{Text: "[" + p + c16Props[rng.Intn(len(c16Props))] + "}]", Opts: opts}
	case 10:
		return cqSet{Text: ".", Opts: opts | 16} // Singleline: the dot is AnyClass (otherwise a Notone node, no set)
	case 11:
		return cqSet{Text: `[\s\d]`, Opts: opts}
	case 12:
		if opts&c16RE2 != 0 {
			return cqSet{Text: "[[:" + c16Posix[rng.Intn(len(c16Posix))] + ":]]", Opts: opts}
		}
		return cqSet{Text: `[\w-[\d]]`, Opts: opts}
	default:
		return cqSet{Text: `[^\s` + esc(letter()) + `]`, Opts: opts}
	}
}

func cqRandomText(rng *rand.Rand) cqSet {
	opts := c16OptSets[rng.Intn(len(c16OptSets))]
	cl := c16GenClass(rng, opts, 0)
	return cqSet{Text: cl.String(), Opts: opts}
}

func cqCanonRanges(rng *rand.Rand, n int) [][2]rune {
	var pts []rune
	for len(pts) < 2*n {
		r := c16Rune(rng, rng.Intn(2) == 0)
		pts = append(pts, r)
	}
	sort.Slice(pts, func(i, j int) bool { return pts[i] < pts[j] })
	var out [][2]rune
	for i := 0; i+1 < len(pts); i += 2 {
		lo, hi := pts[i], pts[i+1]
		if n := len(out); n > 0 && lo <= out[n-1][1]+1 {
			continue
		}
		if hi-lo > 40 && rng.Intn(3) != 0 {
			hi = lo + rune(rng.Intn(5))
		}
		if hi >= 0xd800 && lo <= 0xdfff {
			continue
		}
		out = append(out, [2]rune{lo, hi})
	}
	return out
}

var cqRawCatNames = append([]string{" ", "W", "Nd", " ", "W", "Nd"}, c16Props...)

func cqRandomRaw(rng *rand.Rand, depth int) *cqRaw {
	r := &cqRaw{Neg: rng.Intn(4) == 0}
	if rng.Intn(4) != 0 {
		r.Ranges = cqCanonRanges(rng, 1+rng.Intn(4))
	}
	if rng.Intn(12) == 0 && len(r.Ranges) > 1 { // not canonical: correspondence only
		rng.Shuffle(len(r.Ranges), func(i, j int) { r.Ranges[i], r.Ranges[j] = r.Ranges[j], r.Ranges[i] })
		r.Ranges = append(r.Ranges, r.Ranges[0])
	}
	for k := rng.Intn(3); k > 0 && rng.Intn(2) == 0; k-- {
		r.Cats = append(r.Cats, cqCat{cqRawCatNames[rng.Intn(len(cqRawCatNames))], rng.Intn(4) == 0})
	}
	if rng.Intn(15) == 0 {
		r.Ranges, r.Cats, r.Any = [][2]rune{{0, c16Max}}, nil, true
	}
	if depth < 2 && rng.Intn(4) == 0 {
		r.Sub = cqRandomRaw(rng, depth+1)
	}
	return r
}

// a structural neighbour of a class: what the branches of equals / MayOverlap distinguish
func cqPerturb(rng *rand.Rand, a *cqRaw) (*cqRaw, string) {
	cp := func(r *cqRaw) *cqRaw {
		var f func(r *cqRaw) *cqRaw
		f = func(r *cqRaw) *cqRaw {
			if r == nil {
				return nil
			}
			n := &cqRaw{Neg: r.Neg, Any: r.Any, Sub: f(r.Sub)}
			n.Ranges = append(n.Ranges, r.Ranges...)
			n.Cats = append(n.Cats, r.Cats...)
			return n
		}
		return f(r)
	}
	b := cp(a)
	switch rng.Intn(9) {
	case 0:
		return b, "same"
	case 1, 2:
		b.Neg = !b.Neg
		return b, "flip-negate"
	case 3:
		b.Neg = !b.Neg
		if b.Sub != nil {
			b.Sub.Neg = !b.Sub.Neg
		} else {
			b.Sub = &cqRaw{Ranges: [][2]rune{{'b', 'c'}}}
		}
		return b, "flip-negate-change-sub"
	case 4:
		if len(b.Ranges) > 0 {
			i := rng.Intn(len(b.Ranges))
			if rng.Intn(2) == 0 && b.Ranges[i][1] < c16Max && b.Ranges[i][1] != 0xd7ff {
				b.Ranges[i][1]++
			} else if b.Ranges[i][0] < b.Ranges[i][1] {
				b.Ranges[i][0]++
			}
			if rng.Intn(2) == 0 {
				b.Neg = !b.Neg
			}
			return b, "range-edit"
		}
		b.Ranges = [][2]rune{{'a', 'a'}}
		return b, "range-add"
	case 5:
		if len(b.Cats) > 0 {
			i := rng.Intn(len(b.Cats))
			b.Cats[i].Neg = !b.Cats[i].Neg
			return b, "cat-flip"
		}
		b.Cats = []cqCat{{"Nd", false}}
		return b, "cat-add"
	case 6:
		if b.Sub != nil {
			b.Sub = nil
			return b, "drop-sub"
		}
		b.Sub = &cqRaw{Ranges: [][2]rune{{'a', 'f'}}}
		return b, "add-sub"
	case 7:
		b.Any = !b.Any
		return b, "flip-anything"
	default:
		// the complement ranges, same polarity: disjoint from A when A has only ranges
		if len(b.Cats) == 0 && b.Sub == nil && len(b.Ranges) > 0 {
			var out [][2]rune
			lo := rune(0)
			for _, r := range b.Ranges {
				if r[0] > lo {
					out = append(out, [2]rune{lo, r[0] - 1})
				}
				lo = r[1] + 1
			}
			if lo <= 0xff && rng.Intn(2) == 0 {
				out = append(out, [2]rune{lo, lo + 20})
			}
			if len(out) > 6 {
				out = out[:6]
			}
			// keep the enumeration small
			for i := range out {
				if out[i][1]-out[i][0] > 3000 {
					out[i][1] = out[i][0] + rune(rng.Intn(50))
				}
			}
			b.Ranges = out
			return b, "complement-ranges"
		}
		b.Neg = !b.Neg
		return b, "flip-negate"
	}
}

func cqGen(c *core.Ctx) func(rng *rand.Rand, i int) cqCase {
	fullEvery := 60
	if c.Thorough() {
		fullEvery = 20
	}
	return func(rng *rand.Rand, i int) cqCase {
		cs := cqCase{K: []int{0, 2, 4, 8, 16, 40}[rng.Intn(6)], Full: i%fullEvery == fullEvery-1, Salt: rng.Int63()}
		pick := func() cqSet {
			switch rng.Intn(5) {
			case 0, 1:
				return cqShape(rng)
			case 2, 3:
				return cqRandomText(rng)
			default:
				return cqSet{Raw: cqRandomRaw(rng, 0)}
			}
		}
		switch k := rng.Intn(10); {
		case k < 2:
			cs.A, cs.B, cs.How = cqRandomText(rng), cqRandomText(rng), "random-random"
		case k < 5:
			cs.A, cs.B, cs.How = cqShape(rng), cqShape(rng), "shape-shape"
		case k < 8:
			cs.A = pick()
			cs.B, cs.How = cs.A, "same"
			if set, err := cs.A.build(); err == nil {
				d := set.VerifDump()
				if !cqHasSurrogate(d) {
					b, how := cqPerturb(rng, cqRawOfDump(d))
					cs.B, cs.How = cqSet{Raw: b}, "perturb-"+how
				}
			}
		default:
			cs.A, cs.B, cs.How = pick(), pick(), "mixed"
		}
		if rng.Intn(2) == 0 {
			cs.A, cs.B = cs.B, cs.A
		}
		return cs
	}
}

// ---- Go's answers -------------------------------------------------------------------------------

func cqRunesS(rs []rune) string {
	if rs == nil {
		return "nil"
	}
	return core.SInts(rs)
}

// optional hooks (methods on *CharSet, build tag verif), used when /repo has them
func cqHook(set *syntax.CharSet, name string) (reflect.Value, bool) {
	m := reflect.ValueOf(set).MethodByName(name)
	return m, m.IsValid()
}

type cqAnswers map[string]string

func cqUnary(tag string, set *syntax.CharSet, ids map[string]int, maxChars, nRanges []int, ans cqAnswers, missing map[string]bool) (panicked string) {
	defer func() {
		if r := recover(); r != nil {
			panicked = fmt.Sprint(r)
		}
	}()
	d := set.VerifDump()
	ans[tag+".sing"] = core.SBool(set.IsSingleton())
	ans[tag+".singinv"] = core.SBool(set.IsSingletonInverse())
	if len(d.Ranges) == 0 {
		ans[tag+".schar"] = "-"
	} else {
		ans[tag+".schar"] = fmt.Sprint(set.SingletonChar())
	}
	ans[tag+".merge"] = core.SBool(set.IsMergeable())
	ans[tag+".neg"] = core.SBool(set.IsNegated())
	ans[tag+".sub"] = core.SBool(set.HasSubtraction())
	ans[tag+".empty"] = core.SBool(set.IsEmpty())
	ans[tag+".any"] = core.SBool(set.IsAnything())
	ans[tag+".eqself"] = core.SBool(set.Equals(set))
	for _, k := range maxChars {
		ans[fmt.Sprintf("%s.gsc.%d", tag, k)] = cqRunesS(set.GetSetChars(k))
	}
	for _, n := range nRanges {
		rs := set.GetIfNRanges(n)
		if rs == nil {
			ans[fmt.Sprintf("%s.gnr.%d", tag, n)] = "nil"
		} else {
			var flat []rune
			for _, r := range rs {
				flat = append(flat, r.First, r.Last)
			}
			ans[fmt.Sprintf("%s.gnr.%d", tag, n)] = core.SInts(flat)
		}
	}
	if cats, neg := set.GetIfOnlyUnicodeCategories(); cats == nil {
		ans[tag+".gcats"] = "nil"
	} else {
		var cs []int
		for _, c := range cats {
			cs = append(cs, cqID(ids, c.Cat), b2int(c.Negate))
		}
		ans[tag+".gcats"] = "(" + core.SInts(cs) + " " + core.SBool(neg) + ")"
	}
	if small, chars, neg, desc := set.IsUnicodeCategoryOfSmallCharCount(); !small {
		ans[tag+".small"] = "nil"
	} else {
		dn := map[string]int{"": 0, "whitespace": 1}[desc]
		ans[tag+".small"] = "(" + core.SInts(chars) + " " + core.SBool(neg) + " " + fmt.Sprint(dn) + ")"
	}
	if m, ok := cqHook(set, "VerifContainsAsciiIgnoreCaseCharacter"); ok {
		out := m.Call(nil)
		ans[tag+".caic"] = "(" + core.SBool(out[0].Bool()) + " " + cqRunesS(out[1].Interface().([]rune)) + ")"
	} else {
		missing["caic"] = true
	}
	h := set.Hash()
	hs := make([]int, len(h))
	for i, b := range h {
		hs[i] = int(b)
	}
	ans[tag+".hash"] = core.SInts(hs)
	rt := syntax.NewCharSetRuntime(string(h))
	ans[tag+".rt"] = cqDumpCls(rt.VerifDump(), ids)
	cp := set.Copy()
	ans[tag+".copy"] = cqDumpCls(cp.VerifDump(), ids)
	return ""
}

func cqID(ids map[string]int, name string) int {
	id, ok := ids[name]
	if !ok {
		id = len(ids)
		ids[name] = id
	}
	return id
}

func cqDumpCls(d *c16Dump, ids map[string]int) string { return c16DumpCls(d, ids) }

func cqBinary(tag string, a, b *syntax.CharSet, withEnum bool, ans cqAnswers, missing map[string]bool) (panicked string) {
	defer func() {
		if r := recover(); r != nil {
			panicked = fmt.Sprint(r)
		}
	}()
	ans[tag+".eq"] = core.SBool(a.Equals(b))
	ans[tag+".mo"] = core.SBool(a.MayOverlap(b))
	arg := []reflect.Value{reflect.ValueOf(b)}
	if m, ok := cqHook(a, "VerifEqualsIgnoreNegate"); ok {
		ans[tag+".eqig"] = core.SBool(m.Call(arg)[0].Bool())
	} else {
		missing["eqig"] = true
	}
	if m, ok := cqHook(a, "VerifKnownDistinctFrom"); ok {
		ans[tag+".kd"] = core.SBool(m.Call(arg)[0].Bool())
	} else {
		missing["kd"] = true
	}
	if withEnum {
		if m, ok := cqHook(a, "VerifMayOverlapByEnumeration"); ok {
			ans[tag+".en"] = core.SBool(m.Call(arg)[0].Bool())
		} else {
			missing["en"] = true
		}
	}
	return ""
}

// top-level items "(name value)" of the driver's answer
func cqSplit(s string) (map[string]string, bool) {
	s = strings.TrimSpace(s)
	if len(s) < 2 || s[0] != '(' || s[len(s)-1] != ')' {
		return nil, false
	}
	s = s[1 : len(s)-1]
	out := map[string]string{}
	depth, start := 0, -1
	for i := 0; i < len(s); i++ {
		switch s[i] {
		case '(':
			if depth == 0 {
				start = i
			}
			depth++
		case ')':
			depth--
			if depth < 0 {
				return nil, false
			}
			if depth == 0 {
				item := s[start+1 : i]
				sp := strings.IndexByte(item, ' ')
				if sp < 0 {
					return nil, false
				}
				out[item[:sp]] = item[sp+1:]
			}
		}
	}
	return out, depth == 0
}

func cqFunctionOf(name string) string {
	parts := strings.Split(name, ".")
	if len(parts) < 2 {
		return name
	}
	return map[string]string{"sing": "IsSingleton", "singinv": "IsSingletonInverse", "schar": "SingletonChar", "merge": "IsMergeable",
		"neg": "IsNegated", "sub": "HasSubtraction", "empty": "IsEmpty", "any": "IsAnything", "eqself": "Equals", "eq": "Equals",
		"eqig": "equals-ignoreNegate", "mo": "MayOverlap", "kd": "knownDistinctSets", "en": "mayOverlapByEnumeration", "gsc": "GetSetChars",
		"gnr": "GetIfNRanges", "gcats": "GetIfOnlyUnicodeCategories", "small": "IsUnicodeCategoryOfSmallCharCount",
		"caic": "containsAsciiIgnoreCaseCharacter", "hash": "Hash", "rt": "NewCharSetRuntime", "copy": "Copy"}[parts[1]]
}

// ---- structure predicates ----------------------------------------------------------------------

// canonical at every level: ranges ascending, neither overlapping nor abutting, non-empty, inside the rune range
func cqCanonical(d *c16Dump) bool {
	for d != nil {
		for i, r := range d.Ranges {
			if r[0] > r[1] || r[0] < 0 || r[1] > c16Max {
				return false
			}
			if i > 0 && r[0] <= d.Ranges[i-1][1]+1 {
				return false
			}
		}
		d = d.Sub
	}
	return true
}

func cqEnumSize(d *c16Dump) int {
	n := 0
	for _, r := range d.Ranges {
		if r[1] >= r[0] {
			n += int(r[1]-r[0]) + 1
		}
	}
	return n
}

func cqCollectNames(d *c16Dump, ids map[string]int) bool {
	for d != nil {
		for _, c := range d.Categories {
			if _, ok := cqIntervals(c.Cat); !ok {
				return false
			}
			cqID(ids, c.Cat)
		}
		d = d.Sub
	}
	return true
}

func cqHull(d *c16Dump, lo, hi *rune) {
	for d != nil {
		for _, r := range d.Ranges {
			if r[0] < *lo {
				*lo = r[0]
			}
			if r[1] > *hi {
				*hi = r[1]
			}
		}
		d = d.Sub
	}
}

// ---- the check ---------------------------------------------------------------------------------

type cqPending struct {
	caseIdx int
	ans     cqAnswers
	info    string
}

var cqLetters = func() string {
	var ls []rune
	for r := rune(0); r < 128; r++ {
		if unicode.IsLetter(r) {
			ls = append(ls, r)
		}
	}
	return "(letters " + strings.Trim(core.SInts(ls), "()") + ")"
}()

func cqCheck(c *core.Ctx, cases []cqCase) []core.Outcome {
	outs := make([]core.Outcome, len(cases))
	var lines []string
	var pend []cqPending
	for i := range cases {
		cs := &cases[i]
		o := &outs[i]
		o.Key = cs.A.String() + " | " + cs.B.String()
		o.Buckets = append(o.Buckets, "pair-"+cs.How)
		fail := func(kind, fn, summary, exp, got string) {
			if o.Fail == nil {
				o.Fail = &core.Failure{Kind: kind, Key: "Kq:" + fn, Summary: summary, Expected: exp, Got: got}
			}
		}
		a, errA := cs.A.build()
		b, errB := cs.B.build()
		if errA != nil || errB != nil {
			o.Buckets = append(o.Buckets, "does-not-parse")
			if os.Getenv("CQ_DEBUG") != "" {
				fmt.Fprintln(os.Stderr, "does not parse:", cs.A.String(), cs.B.String(), errA, errB)
			}
			continue
		}
		da, db := a.VerifDump(), b.VerifDump()
		o.Nontrivial = len(da.Ranges)+len(da.Categories) > 0 && len(db.Ranges)+len(db.Categories) > 0
		for _, d := range []*c16Dump{da, db} {
			if d.Sub != nil {
				o.Buckets = append(o.Buckets, "has-subtraction")
			}
			if d.Negate {
				o.Buckets = append(o.Buckets, "negated")
			}
			if len(d.Categories) > 0 {
				o.Buckets = append(o.Buckets, "has-categories")
			}
			if d.Anything {
				o.Buckets = append(o.Buckets, "anything-flag")
			}
		}
		ids := map[string]int{" ": 0, "W": 1, "Nd": 2}
		if !cqCollectNames(da, ids) || !cqCollectNames(db, ids) {
			o.Buckets = append(o.Buckets, "unknown-category-name")
			continue
		}
		canon := cqCanonical(da) && cqCanonical(db)
		if !canon {
			o.Buckets = append(o.Buckets, "not-canonical(correspondence-only)")
		}
		surrogate := cqHasSurrogate(da) || cqHasSurrogate(db)
		if surrogate {
			o.Buckets = append(o.Buckets, "surrogate-endpoint")
		}

		// ---- Go's answers ------------------------------------------------------------------------
		maxChars := []int{1, 3, 5, 128}
		if cs.K > 0 {
			maxChars = append(maxChars, cs.K)
		}
		nRanges := []int{1, 2}
		if n := len(da.Ranges); n > 2 {
			nRanges = append(nRanges, n)
		}
		withEnum := cqEnumSize(da) <= 70000 && cqEnumSize(db) <= 70000
		ans := cqAnswers{}
		missing := map[string]bool{}
		var pan string
		for _, p := range []string{
			cqUnary("A", a, ids, maxChars, nRanges, ans, missing), cqUnary("B", b, ids, maxChars, nRanges, ans, missing),
			cqBinary("AB", a, b, withEnum, ans, missing), cqBinary("BA", b, a, withEnum, ans, missing)} {
			if p != "" {
				pan = p
			}
		}
		if pan != "" {
			fail("impl-violation", "panic", fmt.Sprintf("a query function panics on the pair %s: %s", o.Key, pan), "no panic", pan)
			continue
		}
		for m := range missing {
			o.Buckets = append(o.Buckets, "hook-missing:"+m)
		}
		mo, om := ans["AB.mo"] == "1", ans["BA.mo"] == "1"
		o.Buckets = append(o.Buckets, fmt.Sprintf("MayOverlap-%v", mo))
		// which branch of MayOverlap(A,B) answered (from the structure; the known-distinct table needs the hook)
		switch {
		case ans["AB.eq"] == "1":
			o.Buckets = append(o.Buckets, "mo-branch-equal")
		case da.Anything || db.Anything:
			o.Buckets = append(o.Buckets, "mo-branch-anything")
		case da.Negate != db.Negate:
			o.Buckets = append(o.Buckets, fmt.Sprintf("mo-branch-inverse-%v", mo))
		case da.Negate:
			o.Buckets = append(o.Buckets, "mo-branch-both-negated")
		case ans["AB.kd"] == "1" || ans["BA.kd"] == "1":
			o.Buckets = append(o.Buckets, "mo-branch-known-distinct")
		case db.Sub == nil && len(db.Categories) == 0 || da.Sub == nil && len(da.Categories) == 0:
			o.Buckets = append(o.Buckets, fmt.Sprintf("mo-branch-enumeration(or known-distinct without the hook)-%v", mo))
		default:
			o.Buckets = append(o.Buckets, "mo-branch-default-true")
		}
		if ans["AB.eq"] == "1" {
			o.Buckets = append(o.Buckets, "Equals-true")
		}
		if ans["A.sing"] == "1" || ans["B.sing"] == "1" || ans["A.singinv"] == "1" || ans["B.singinv"] == "1" {
			o.Buckets = append(o.Buckets, "singleton")
		}
		if ans["A.gsc.128"] != "nil" || ans["B.gsc.128"] != "nil" {
			o.Buckets = append(o.Buckets, "GetSetChars-some")
		}
		if ans["A.caic"] != "" && strings.HasPrefix(ans["A.caic"], "(1") || strings.HasPrefix(ans["B.caic"], "(1") {
			o.Buckets = append(o.Buckets, "ascii-case-pair")
		}
		if ans["A.small"] != "nil" || ans["B.small"] != "nil" {
			o.Buckets = append(o.Buckets, "small-category")
		}
		if ans["A.gcats"] != "nil" || ans["B.gcats"] != "nil" {
			o.Buckets = append(o.Buckets, "only-categories")
		}

		// ---- (b) model-free oracle -----------------------------------------------------------------
		if canon {
			var dom []rune
			if cs.Full {
				o.Buckets = append(o.Buckets, "domain-full")
				dom = make([]rune, 0, c16Max+1)
				for r := rune(0); r <= c16Max; r++ {
					dom = append(dom, r)
				}
			} else {
				var ends []rune
				c16DumpEndpoints(da, &ends)
				c16DumpEndpoints(db, &ends)
				dom = c16Spread(ends, 1)
				for r := rune(0); r < 0x250; r++ {
					dom = append(dom, r)
				}
				dom = append(dom, c16Interesting...)
				rng := rand.New(rand.NewSource(cs.Salt))
				for k := 0; k < 200; k++ {
					dom = append(dom, c16Rune(rng, false), rune(rng.Intn(c16Max+1)))
				}
				dom = c16Uniq(dom, func(r rune) bool { return r >= 0 && r <= c16Max })
			}
			memA, memB := make([]bool, len(dom)), make([]bool, len(dom))
			for k, r := range dom {
				memA[k], memB[k] = a.CharIn(r), b.CharIn(r)
			}
			cqOracle(o.Key, "A", a, da, dom, memA, ans, surrogate, cs.A.Raw == nil, fail)
			cqOracle(o.Key, "B", b, db, dom, memB, ans, surrogate, cs.B.Raw == nil, fail)
			eq := ans["AB.eq"] == "1"
			if eq != (ans["BA.eq"] == "1") {
				fail("impl-violation", "Equals", "Equals is not symmetric on "+o.Key, ans["AB.eq"], ans["BA.eq"])
			}
			for k, r := range dom {
				ia, ib := memA[k], memB[k]
				if ia && ib && (!mo || !om) {
					fail("impl-violation", "MayOverlap", fmt.Sprintf("MayOverlap(A,B)=%v, MayOverlap(B,A)=%v but U+%04X is a member of both A = %s and B = %s", mo, om, r, cs.A.String(), cs.B.String()), "true", "false")
					break
				}
				if eq && ia != ib {
					fail("impl-violation", "Equals", fmt.Sprintf("Equals(A,B) holds but U+%04X is a member of only one of A = %s, B = %s", r, cs.A.String(), cs.B.String()), fmt.Sprint(ia), fmt.Sprint(ib))
					break
				}
			}
		}

		// ---- (a) correspondence: the same questions to the Lean model ----------------------------------
		lo, hi := rune(c16Max), rune(0)
		cqHull(da, &lo, &hi)
		cqHull(db, &lo, &hi)
		names := make([]string, 0, len(ids))
		for n := range ids {
			names = append(names, n)
		}
		sort.Slice(names, func(x, y int) bool { return ids[names[x]] < ids[names[y]] })
		var orr, nms strings.Builder
		orr.WriteString("(oranges")
		nms.WriteString("(names")
		for _, n := range names {
			iv, _ := cqIntervals(n)
			fmt.Fprintf(&orr, " (%d", ids[n])
			for _, r := range iv {
				if r[1] < lo || r[0] > hi {
					continue
				}
				fmt.Fprintf(&orr, " %d %d", r[0], r[1])
			}
			orr.WriteByte(')')
			fmt.Fprintf(&nms, " (%d", ids[n])
			for _, bt := range []byte(n) {
				fmt.Fprintf(&nms, " %d", bt)
			}
			nms.WriteByte(')')
		}
		orr.WriteByte(')')
		nms.WriteByte(')')
		line := core.S("c16", "query", c16DumpSexp(da, ids, true), c16DumpSexp(db, ids, true),
			"(maxchars "+strings.Trim(core.SInts(maxChars), "()")+")", "(nranges "+strings.Trim(core.SInts(nRanges), "()")+")",
			"(enum "+core.SBool(withEnum)+")", orr.String(), nms.String(), cqLetters)
		lines = append(lines, line)
		pend = append(pend, cqPending{caseIdx: i, ans: ans, info: o.Key})
	}
	if p := os.Getenv("CQ_DUMP_LINES"); p != "" {
		if f, e := os.OpenFile(p, os.O_APPEND|os.O_CREATE|os.O_WRONLY, 0o644); e == nil {
			for _, l := range lines {
				fmt.Fprintln(f, l)
			}
			f.Close()
		}
	}
	got, err := c.RunDriver(lines)
	for k, p := range pend {
		o := &outs[p.caseIdx]
		if o.Fail != nil {
			continue
		}
		if err != nil {
			o.Fail = &core.Failure{Kind: "correspondence-break", Key: "Kq:driver", Summary: "the Lean driver failed: " + err.Error(), Expected: "answers", Got: ""}
			continue
		}
		items, ok := cqSplit(got[k])
		if !ok {
			o.Fail = &core.Failure{Kind: "correspondence-break", Key: "Kq:driver", Summary: "unreadable answer of the Lean driver for " + p.info, Expected: "((name value)…)", Got: c16Clip(got[k])}
			continue
		}
		keys := make([]string, 0, len(p.ans))
		for n := range p.ans {
			keys = append(keys, n)
		}
		sort.Strings(keys)
		for _, n := range keys {
			lean, have := items[n]
			if !have {
				lean = "<missing>"
			}
			if lean != p.ans[n] {
				o.Fail = &core.Failure{Kind: "correspondence-break", Key: "Kq:" + cqFunctionOf(n) + ":model",
					Summary:  fmt.Sprintf("%s (%s) on the pair A = %s, B = %s: the Go code and the Lean model of the query functions disagree", cqFunctionOf(n), n, cases[p.caseIdx].A.String(), cases[p.caseIdx].B.String()),
					Expected: "Lean: " + c16Clip(lean), Got: "Go: " + c16Clip(p.ans[n])}
				break
			}
		}
	}
	return outs
}

// the unary answers against membership
func cqOracle(key, tag string, set *syntax.CharSet, d *c16Dump, dom []rune, mem []bool, ans cqAnswers, surrogate, parsed bool, fail func(kind, fn, summary, exp, got string)) {
	neg := d.Negate
	members := func(extra []rune) map[rune]bool {
		m := map[rune]bool{}
		for _, r := range extra {
			if set.CharIn(r) {
				m[r] = true
			}
		}
		return m
	}
	// count members / non-members lazily: only when a flag asks for it
	count := func(want bool, limit int) (n int, first rune) {
		for k, r := range dom {
			if mem[k] == want {
				if n == 0 {
					first = r
				}
				n++
				if n >= limit {
					return
				}
			}
		}
		return
	}
	if ans[tag+".sing"] == "1" {
		ch := set.SingletonChar()
		n, first := count(true, 3)
		if !set.CharIn(ch) || n > 1 || (n == 1 && first != ch) {
			fail("impl-violation", "IsSingleton", fmt.Sprintf("IsSingleton holds for %s (%s), SingletonChar = U+%04X, but the members in the domain are not exactly that rune", tag, key, ch), "one member", fmt.Sprintf("%d members, first U+%04X", n, first))
		}
	}
	if ans[tag+".singinv"] == "1" {
		ch := set.SingletonChar()
		n, first := count(false, 3)
		if set.CharIn(ch) || n > 1 || (n == 1 && first != ch) {
			fail("impl-violation", "IsSingletonInverse", fmt.Sprintf("IsSingletonInverse holds for %s (%s), SingletonChar = U+%04X, but the non-members in the domain are not exactly that rune", tag, key, ch), "one non-member", fmt.Sprintf("%d non-members, first U+%04X", n, first))
		}
	}
	if ans[tag+".empty"] == "1" {
		if n, first := count(!neg, 1); n > 0 {
			fail("impl-violation", "IsEmpty", fmt.Sprintf("IsEmpty holds for %s (%s, negate=%v) but U+%04X has membership %v", tag, key, neg, first, !neg), fmt.Sprint(neg), fmt.Sprint(!neg))
		}
	}
	// (the flag of a structure made with NewCharSetRuntime is whatever was written there: parsed classes only)
	if parsed && ans[tag+".any"] == "1" && !neg && d.Sub == nil {
		if n, first := count(false, 1); n > 0 {
			fail("impl-violation", "IsAnything", fmt.Sprintf("IsAnything holds for the un-negated, subtraction-free %s (%s) but U+%04X is not a member", tag, key, first), "member", "not a member")
		}
	}
	if ans[tag+".merge"] == "1" && (neg || d.Sub != nil) {
		fail("impl-violation", "IsMergeable", fmt.Sprintf("IsMergeable holds for %s (%s) which is negated or has a subtraction", tag, key), "false", "true")
	}
	exact := func(fn string, chars []rune, negated bool) {
		in := map[rune]bool{}
		for _, r := range chars {
			in[r] = true
		}
		listed := members(chars)
		for _, r := range chars {
			if listed[r] == negated {
				fail("impl-violation", fn, fmt.Sprintf("%s of %s (%s) lists U+%04X (negated=%v) but its membership is %v", fn, tag, key, r, negated, listed[r]), fmt.Sprint(!negated), fmt.Sprint(listed[r]))
				return
			}
		}
		for k, r := range dom {
			if mem[k] != negated && !in[r] {
				fail("impl-violation", fn, fmt.Sprintf("%s of %s (%s) (negated=%v) does not list U+%04X whose membership is %v", fn, tag, key, negated, r, !negated), "listed", "not listed")
				return
			}
		}
	}
	for _, k := range []int{1, 3, 5, 128} {
		if chars := set.GetSetChars(k); chars != nil {
			exact(fmt.Sprintf("GetSetChars(%d)", k), chars, neg)
			break
		}
	}
	if small, chars, negated, _ := set.IsUnicodeCategoryOfSmallCharCount(); small {
		exact("IsUnicodeCategoryOfSmallCharCount", chars, negated)
	}
	for _, n := range []int{1, 2, len(d.Ranges)} {
		if rs := set.GetIfNRanges(n); n > 0 && rs != nil {
			for k, r := range dom {
				in := false
				for _, g := range rs {
					if g.First <= r && r <= g.Last {
						in = true
					}
				}
				if in != (mem[k] != neg) {
					fail("impl-violation", "GetIfNRanges", fmt.Sprintf("GetIfNRanges(%d) of %s (%s, negate=%v): U+%04X in the ranges = %v, membership %v", n, tag, key, neg, r, in, set.CharIn(r)), fmt.Sprint(set.CharIn(r) != neg), fmt.Sprint(in))
					break
				}
			}
			break
		}
	}
	if cats, negated := set.GetIfOnlyUnicodeCategories(); cats != nil {
		// exact reading "in some listed category, xor negated" — only claimed for one entry or un-negated entries
		// (several NEGATED entries: the class is a union of complements, the answer reads as the complement of a union;
		// no caller in the engine; recorded in design.d/C16.md)
		if len(cats) == 1 || !cats[0].Negate {
			for k, r := range dom {
				in := false
				for _, ct := range cats {
					if m, ok := c16CatMem(ct.Cat, r); ok && m {
						in = true
					}
				}
				if (in != negated) != mem[k] {
					fail("impl-violation", "GetIfOnlyUnicodeCategories", fmt.Sprintf("GetIfOnlyUnicodeCategories of %s (%s) = (%v, negate=%v) but U+%04X has membership %v", tag, key, cats, negated, r, set.CharIn(r)), fmt.Sprint(set.CharIn(r)), fmt.Sprint(in != negated))
					break
				}
			}
		}
	}
	if v := ans[tag+".caic"]; strings.HasPrefix(v, "(1") {
		if m, ok := cqHook(set, "VerifContainsAsciiIgnoreCaseCharacter"); ok {
			chars := m.Call(nil)[1].Interface().([]rune)
			okPair := len(chars) == 2 && chars[0] >= 'A' && chars[0] <= 'Z' && chars[1] == chars[0]+32
			if !okPair {
				fail("impl-violation", "containsAsciiIgnoreCaseCharacter", fmt.Sprintf("containsAsciiIgnoreCaseCharacter of %s (%s) answers true with characters %v: not an upper/lower pair of one ASCII letter", tag, key, chars), "[X x]", fmt.Sprint(chars))
			} else {
				exact("containsAsciiIgnoreCaseCharacter", chars, false)
			}
		}
	}
	// serialisation round trip and Copy keep the members (no surrogate endpoints: the hash is UTF-8)
	if !surrogate {
		rt := syntax.NewCharSetRuntime(string(set.Hash()))
		cp := set.Copy()
		if !rt.Equals(set) || !cp.Equals(set) {
			fail("impl-violation", "Hash", fmt.Sprintf("NewCharSetRuntime(Hash()) or Copy() of %s (%s) is not Equal to the set", tag, key), "Equals", "differs")
		}
		for k, r := range dom {
			if rt.CharIn(r) != mem[k] || cp.CharIn(r) != mem[k] {
				fail("impl-violation", "Hash", fmt.Sprintf("NewCharSetRuntime(Hash()) / Copy() of %s (%s) differ from the set on U+%04X", tag, key, r), fmt.Sprint(set.CharIn(r)), fmt.Sprint(rt.CharIn(r), cp.CharIn(r)))
				break
			}
		}
	}
}

// ---- (c) the unicode facts the query functions rely on ---------------------------------------------

type cqFactCase struct {
	Fact string `json:"fact"`
}

var cqFacts = []string{"space-not-digit", "space-not-word", "ecmaspace-not-digit", "ecmaspace-not-word", "ecmaword-not-space", "ecmadigit-not-space", "whitespaceChars-are-the-spaces", "ascii-letters"}

// one pass over all code points: the first rune (or -1) at which each fact fails
var cqFactBad = sync.OnceValue(func() map[string]rune {
	inRanges := func(rs [][2]rune, r rune) bool {
		for _, g := range rs {
			if g[0] <= r && r <= g[1] {
				return true
			}
		}
		return false
	}
	es, ew, ed := syntax.ECMASpaceClass().VerifDump().Ranges, syntax.ECMAWordClass().VerifDump().Ranges, syntax.ECMADigitClass().VerifDump().Ranges
	_, ws, _, _ := syntax.SpaceClass().IsUnicodeCategoryOfSmallCharCount()
	inWs := map[rune]bool{}
	for _, w := range ws {
		inWs[w] = true
	}
	bad := map[string]rune{}
	for _, f := range cqFacts {
		bad[f] = -1
	}
	note := func(f string, ok bool, r rune) {
		if !ok && bad[f] < 0 {
			bad[f] = r
		}
	}
	for r := rune(0); r <= c16Max; r++ {
		sp, nd, wd := unicode.IsSpace(r), unicode.Is(unicode.Nd, r), isWordCharStd(r)
		ies := inRanges(es, r)
		note("space-not-digit", !(sp && nd), r)
		note("space-not-word", !(sp && wd), r)
		note("ecmaspace-not-digit", !(ies && nd), r)
		note("ecmaspace-not-word", !(ies && wd), r)
		note("ecmaword-not-space", !(sp && inRanges(ew, r)), r)
		note("ecmadigit-not-space", !(sp && inRanges(ed, r)), r)
		note("whitespaceChars-are-the-spaces", inWs[r] == sp, r)
		note("ascii-letters", r >= 128 || unicode.IsLetter(r) == (r >= 'A' && r <= 'Z' || r >= 'a' && r <= 'z'), r)
	}
	return bad
})

func cqFactCheck(c *core.Ctx, cases []cqFactCase) []core.Outcome {
	outs := make([]core.Outcome, len(cases))
	for i, cs := range cases {
		o := &outs[i]
		o.Key, o.Nontrivial = cs.Fact, true
		bad, known := cqFactBad()[cs.Fact]
		if !known {
			bad = 0
		}
		if bad >= 0 {
			o.Fail = &core.Failure{Kind: "impl-violation", Key: "Kq:oracle-fact:" + cs.Fact,
				Summary:  fmt.Sprintf("the fact %q about Go's unicode tables, a hypothesis of the query-function theorems (knownDistinctSets, whitespaceChars, ASCII letters), fails at U+%04X", cs.Fact, bad),
				Expected: "holds for every code point", Got: fmt.Sprintf("U+%04X", bad)}
		}
	}
	return outs
}

func c16QueryLeg(c *core.Ctx, quick, thorough int) {
	core.RunLeg(c, core.Leg[cqFactCase]{
		Name: "Kq-facts", Kind: "oracle(unicode tables)", Exhaustive: true,
		Rule: "the eight facts about package unicode that the query functions assume and the Lean theorems take as hypotheses on the category oracle (OracleFacts, the white-space list, ASCII letters): no white-space rune is a decimal digit / a word character; no rune of the ECMAScript space table is a digit / a word character; no rune of the ECMAScript word / digit table is white space; whitespaceChars is exactly the set of white-space runes; unicode.IsLetter below U+0080 is A-Z, a-z — each over all 1 114 112 code points",
		Corpus: func() []cqFactCase {
			var cs []cqFactCase
			for _, f := range cqFacts {
				cs = append(cs, cqFactCase{f})
			}
			return cs
		}(), N: 0, Gen: func(rng *rand.Rand, i int) cqFactCase { return cqFactCase{cqFacts[0]} }, Check: cqFactCheck, Batch: 10,
	})
	t := func(text string, opts int) cqSet { return cqSet{Text: text, Opts: opts} }
	corpus := []cqCase{
		// the knownDistinctSets table
		{A: t(`[\s]`, 0), B: t(`[\d]`, 0), How: "corpus", Salt: 1, Full: true},
		{A: t(`[\s]`, 0), B: t(`[\w]`, 0), How: "corpus", Salt: 2, Full: true},
		{A: t(`[\s]`, c16E), B: t(`[\w]`, c16E), How: "corpus", Salt: 3, Full: true},
		{A: t(`[\s]`, c16E), B: t(`[\d]`, 0), How: "corpus", Salt: 4, Full: true},
		{A: t(`[\w]`, 0), B: t(`[\s]`, c16E), How: "corpus", Salt: 5, Full: true},
		{A: t(`[\d]`, c16E), B: t(`[\s]`, 0), How: "corpus", Salt: 6, Full: true},
		// the two that must NOT be declared distinct
		{A: t(`[\w]`, 0), B: t(`[\d]`, 0), How: "corpus", Salt: 7},
		{A: t(`[\d]`, 0), B: t(`[\w]`, 0), How: "corpus", Salt: 8},
		// inverse pairs, same and different subtraction
		{A: t(`[abc]`, 0), B: t(`[^abc]`, 0), How: "corpus", Salt: 9, Full: true},
		{A: t(`[a-z-[aeiou]]`, 0), B: t(`[^a-z-[aeiou]]`, 0), How: "corpus", Salt: 10},
		{A: t(`[a-z-[aeiou]]`, 0), B: t(`[^a-z-[xyz]]`, 0), How: "corpus", Salt: 11},
		{A: t(`[a]`, 0), B: t(`[^a]`, 0), How: "corpus", Salt: 12},
		// enumeration: ranges that touch in the last / first rune
		{A: t(`[a-f]`, 0), B: t(`[f-k]`, 0), How: "corpus", Salt: 13},
		{A: t(`[f]`, 0), B: t(`[a-f]`, 0), How: "corpus", Salt: 14},
		{A: t(`[a-e]`, 0), B: t(`[f-k]`, 0), How: "corpus", Salt: 15},
		{A: t(`[\p{Lu}]`, 0), B: t(`[a-zZ]`, 0), How: "corpus", Salt: 16},
		{A: t(`[\p{Lu}]`, 0), B: t(`[a-z]`, 0), How: "corpus", Salt: 17},
		// singletons, case pairs, subtraction inside GetSetChars
		{A: t(`[k]`, c16I), B: t(`[K]`, 0), How: "corpus", Salt: 18},
		{A: t(`[a]`, c16I), B: t(`[Aa]`, 0), How: "corpus", Salt: 19},
		{A: t(`[a-e-[bd]]`, 0), B: t(`[ace]`, 0), How: "corpus", Salt: 20},
		{A: t(`[@`+"`"+`]`, 0), B: t(`[\x5b\x7b]`, 0), How: "corpus", Salt: 21},
		// surrogate endpoints: the hash is UTF-8 (D48)
		{A: t(`[\uD800\uD900]`, 0), B: t(`[\uD801\uD901]`, 0), How: "corpus", Salt: 22},
		// several negated categories: GetIfOnlyUnicodeCategories
		{A: t(`[\P{Lu}\P{Ll}]`, 0), B: t(`[\P{Lu}]`, 0), How: "corpus", Salt: 23},
		// the empty and the full class
		{A: t(`[^\s\S]`, 0), B: t(`[\s\S]`, 0), How: "corpus", Salt: 24},
		{A: cqSet{Raw: &cqRaw{}}, B: cqSet{Raw: &cqRaw{Neg: true}}, How: "corpus", Salt: 25},
	}
	core.RunLeg(c, core.Leg[cqCase]{
		Name: "Kq", Kind: "correspondence+oracle",
		Rule: "pairs of classes: leg K's random class expressions (20 %), the shapes canBeMadeAtomic meets (30 %: \\s \\w \\d and their negations under default / ECMAScript / RE2, single letters, [^x], case-folded letters, small sets, touching ranges, a-z minus a subtraction, \\p{..}, the dot, POSIX names), a class and a structural neighbour built with NewCharSetRuntime (30 %: same, negate flipped, negate flipped and subtraction changed, one range endpoint moved, a category entry flipped or added, subtraction dropped or added, anything flipped, the complement ranges), mixed incl. raw structures (20 %; 1 in 12 raw range lists not canonical: correspondence only). Every query function (Equals, MayOverlap both ways, IsSingleton, IsSingletonInverse, SingletonChar, IsMergeable, IsNegated, HasSubtraction, IsEmpty, IsAnything, GetSetChars for 1/3/5/128 and a drawn size, GetIfNRanges, GetIfOnlyUnicodeCategories, IsUnicodeCategoryOfSmallCharCount, Hash, NewCharSetRuntime∘Hash, Copy; equals-ignoreNegate, knownDistinctSets, mayOverlapByEnumeration, containsAsciiIgnoreCaseCharacter when /repo has the hooks) on the real CharSets = the Lean model on the dumped structures (category oracle = member intervals from package unicode). Oracle against CharIn on: U+0000-024F, endpoints ±1 of both classes, 130 special runes, 400 random; every 60th (thorough 20th) pair all 1 114 112 code points. Non-trivial = both classes have a range or a category; distinct by the pair",
		Corpus: corpus, N: c.N(quick, thorough), Gen: cqGen(c), Check: cqCheck, Batch: 200,
	})
}
